"""Property runner: validation of the encoding, exploration, solver verdicts, native replay, findings protocol, evidence."""
import os, sys, json, time, hashlib, random, re
import z3
from . import run, native
from .core import *

VERIF = run.VERIF
OUT = os.path.join(VERIF, 'out')
EVID = os.path.join(VERIF, 'evidence')

def log(*a):
    print(*a, flush=True)

class Harness:
    """one symbolic harness = one family of obligations over one entry point of the real code"""
    name = '?'
    property_id = '?'
    doc = ''
    bounds = {}
    entry = []            # MIR bodies the harness calls directly
    classes = {}          # class id -> description of a known deviation class (see known_findings.json)
    solver_timeout_ms = 30000
    nontrivial_rule = ''
    def setup(self, it): pass
    def run(self, it, ctx, res): raise NotImplementedError
    def validate(self, it, seed): return 0, []
    def case_of(self, verdict): raise NotImplementedError
    def confirm(self, case, profile): raise NotImplementedError
    # ---- helpers for run()
    def oblige(self, ctx, res, oblig, prop, classes=(), info=None):
        """obligation: prop must hold on this path.  classes: [(class_id, z3 condition)] partition of known deviations."""
        t0 = time.time()
        wit, _ = ctx.check_sat(prop)
        excl = []
        hits = []
        final = None
        for _round in range(len(classes) + 2):
            neg = z3.Not(prop) if not isinstance(prop, bool) else (not prop)
            if isinstance(neg, bool): cond = neg if not excl else (z3.And(*excl) if neg else False)
            else: cond = z3.And(neg, *excl) if excl else neg
            st, model = ctx.check_sat(cond)
            if st != 'sat': final = st; break
            cls = None
            for cid, cform in classes:
                s2, _ = ctx.check_sat(z3.And(cond, cform)) if not isinstance(cform, bool) else (('sat' if cform else 'unsat'), None)
                if s2 == 'sat':
                    # take a model inside the class so that the replayed case belongs to it
                    _, model = ctx.check_sat(z3.And(cond, cform)) if not isinstance(cform, bool) else (st, model)
                    cls = cid; excl.append(z3.Not(cform) if not isinstance(cform, bool) else False); break
            hits.append({'class': cls, 'model': model})
            if cls is None: final = 'sat'; break
        else:
            final = 'unknown'
        xc = None
        n = int(os.environ.get('VERIF_XCHECK', '0') or 0)
        if n and not isinstance(prop, bool) and final in ('unsat', 'sat') and not hits and (hash(tuple(ctx.trace)) + len(res['verdicts'])) % n == 0:
            xc = cross_check(ctx, z3.Not(prop), final)
        v = {'oblig': oblig, 'status': final if not hits else ('sat' if any(h['class'] is None for h in hits) else final),
             'witness': wit, 'hits': hits, 'info': info or {}}
        if hits and all(h['class'] is not None for h in hits) and final == 'unsat': v['status'] = 'unsat-modulo-known'
        if xc: v['cross'] = xc
        res['verdicts'].append(v)
        return v
    def fail(self, ctx, res, oblig, what, classes=(), info=None):
        """the path itself is the violation (panic, non-termination): every input on it is a counterexample"""
        return self.oblige(ctx, res, oblig, False, classes, dict(info or {}, what=what))

def cross_check(ctx, cond, expected):
    """re-decide one exported query (SMT-LIB2) with z3 4.8.12 and cvc5; -> {solver: answer}"""
    import subprocess, tempfile
    txt = ctx.smt2(cond)
    txt = '(set-logic ALL)\n' + '\n'.join(l for l in txt.split('\n') if not l.startswith('(set-info') and not l.startswith('; benchmark'))
    out = {'expected': expected}
    with tempfile.NamedTemporaryFile('w', suffix='.smt2', delete=False) as f:
        f.write(txt); path = f.name
    try:
        for name, cmd in (('z3-4.8.12', ['/usr/bin/z3', '-T:20', path]), ('cvc5', ['cvc5', '--lang', 'smt2', '--tlimit=20000', path])):
            try:
                r = subprocess.run(cmd, stdout=subprocess.PIPE, stderr=subprocess.STDOUT, text=True, timeout=30)
                ans = [l.strip() for l in r.stdout.split('\n') if l.strip() in ('sat', 'unsat', 'unknown')]
                out[name] = 'error' if '(error' in r.stdout else (ans[0] if ans else 'no-answer')
            except Exception as e:
                out[name] = 'timeout'
    finally:
        os.unlink(path)
    return out

def concrete(it, fn):
    """run fn() on a fresh concrete path; -> ('ok', value) | ('panic', msg) | ('budget', msg)"""
    it.ctx = Ctx([]); it.depth = 0; it.stack = []
    try: return ('ok', fn())
    except Panic as e: return ('panic', str(e))
    except Budget as e: return ('budget', str(e))

def load_known():
    p = os.path.join(VERIF, 'known_findings.json')
    if not os.path.exists(p): return []
    return json.load(open(p)).get('findings', [])

def fn_hashes(it, called):
    out = {}
    for n in sorted(called):
        f = it.fns.get(n) or it.consts.get(n)
        if f is not None: out[n] = hashlib.sha256(f.text.encode()).hexdigest()[:12]
    return out

def run_property(pid, harnesses, tier, seed, level='model_checking', assumptions=(), extra_cov=None, want_smir=False, budget_s=None):
    t00 = time.time()
    os.makedirs(os.path.join(OUT, pid), exist_ok=True); os.makedirs(EVID, exist_ok=True)
    z3.set_param('smt.random_seed', seed % (2**31)); z3.set_param('sat.random_seed', seed % (2**31))
    random.seed(seed)
    known = [k for k in load_known() if k.get('property') == pid and not k.get('fixed')]
    known_keys = {(k['harness'], k['class']): k for k in known}
    inconclusive, violations, known_hit = [], [], {}
    cov = {'states': 0, 'transitions': 0, 'traces_validated_against_impl': 0, 'samples': [], 'harnesses': {},
           'queries': 0, 'solver_time_s': 0.0, 'unsat': 0, 'sat': 0, 'unknown': 0, 'obligations': 0}
    try:
        it = run.load_interp(want_smir=want_smir, log=log)
        native.build('dev', log)
    except Exception as e:
        log('INCONCLUSIVE: build failed: %s' % e)
        write_evidence(pid, tier, seed, level, cov, assumptions, time.time() - t00, 0, note='build failed: %s' % e)
        return 2
    cov['mir_dump_sha256'] = it.dump_info['mir_sha256']; cov['tree_hash'] = it.dump_info['tree_hash']
    called_all = set()
    for h in harnesses:
        th = time.time()
        hc = {'bounds': h.bounds, 'doc': h.doc}
        cov['harnesses'][h.name] = hc
        try:
            h.setup(it)
            nval, mism = h.validate(it, seed)
        except (Unsupported, Exception) as e:
            inconclusive.append('%s: validation error %s: %s @ %s' % (h.name, type(e).__name__, e, getattr(e, '_where', '')))
            continue
        hc['validated'] = nval; cov['traces_validated_against_impl'] += nval
        if mism:
            for m in mism[:5]: log('ENCODING-MISMATCH %s: %s' % (h.name, m))
            inconclusive.append('%s: %d encoding mismatches (interpreter vs native), e.g. %s' % (h.name, len(mism), mism[0]))
            continue
        deadline = (t00 + budget_s) if budget_s else None
        ex = run.explore(h, it, seed=seed, log=log, deadline=deadline, max_paths=getattr(h, 'max_paths', 2000000))
        called_all |= ex['called']
        rs = ex['results']
        oc = {}
        for r in rs: oc[r['outcome']] = oc.get(r['outcome'], 0) + 1
        hc['paths'] = len(rs); hc['outcomes'] = oc; hc['wall_s'] = round(time.time() - th, 2)
        feas = [r for r in rs if r['outcome'] not in ('infeasible',)]
        cov['states'] += len(feas); cov['transitions'] += sum(r['branches'] for r in rs)
        cov['queries'] += sum(r['queries'] for r in rs); cov['solver_time_s'] += sum(r['solver_s'] for r in rs)
        if ex['stopped']: inconclusive.append('%s: exploration stopped: %s' % (h.name, ex['stopped']))
        for bad in ('unsupported', 'engine-error', 'budget', 'panic-unhandled'):
            xs = [r for r in rs if r['outcome'] == bad]
            if xs:
                inconclusive.append('%s: %d paths ended %s, e.g. %s' % (h.name, len(xs), bad, xs[0].get('detail', '')[:600]))
        nobl = nw = 0; stat = {}
        cand = []
        for r in rs:
            for v in r['verdicts']:
                nobl += 1; stat[v['status']] = stat.get(v['status'], 0) + 1
                if v['witness'] == 'sat': nw += 1
                if v['status'] == 'unknown' or v['witness'] == 'unknown': cov['unknown'] += 1
                for hit in v['hits']: cand.append((v, hit, r))
                cov['sat'] += len(v['hits']); cov['unsat'] += 1 if v['status'].startswith('unsat') else 0
        cov['obligations'] += nobl
        xs = [v['cross'] for r in rs for v in r['verdicts'] if v.get('cross')]
        if xs:
            cs = cov.setdefault('cross_solver', {'queries': 0, 'agree': 0, 'inconclusive': 0, 'disagree': 0})
            for x in xs:
                cs['queries'] += 1
                others = [x.get('z3-4.8.12'), x.get('cvc5')]
                if any(o in ('sat', 'unsat') and o != x['expected'] for o in others):
                    cs['disagree'] += 1; inconclusive.append('%s: cross-solver disagreement %r' % (h.name, x))
                elif all(o == x['expected'] for o in others): cs['agree'] += 1
                else: cs['inconclusive'] += 1
        hc['obligation_status'] = stat; hc['obligations'] = nobl
        hc['twin_negated_property_sat'] = nobl - nw if False else None
        hc['nonvacuous_obligations'] = nw
        cov['paths_with_obligations'] = cov.get('paths_with_obligations', 0) + sum(1 for r in rs if r['verdicts'])
        if stat.get('unknown'): inconclusive.append('%s: %d solver unknowns' % (h.name, stat['unknown']))
        if nobl == 0 or nw == 0:
            inconclusive.append('%s: vacuous harness (obligations=%d, satisfiable property on %d)' % (h.name, nobl, nw))
        # samples
        for r in rs[:3]:
            cov['samples'].append({'harness': h.name, 'path_decisions': len(r['prefix']), 'outcome': r['outcome'], 'steps': r['steps'],
                                   'verdicts': [{'oblig': v['oblig'], 'status': v['status'], 'info': v['info']} for v in r['verdicts']][:4]})
        # ---- counterexamples: replay natively before reporting
        per_class = {}
        for v, hit, r in cand:
            key = (v['oblig'], hit['class'])
            per_class.setdefault(key, [])
            if len(per_class[key]) < (3 if hit['class'] else 12): per_class[key].append((v, hit, r))
        hc['counterexample_classes'] = {('%s/%s' % k): sum(1 for c in cand if (c[0]['oblig'], c[1]['class']) == k) for k in per_class}
        for key, lst in per_class.items():
            for v, hit, r in lst:
                try:
                    case = h.case_of({'oblig': v['oblig'], 'model': hit['model'], 'info': v['info'], 'class': hit['class']})
                    confd, what_d = h.confirm(case, 'dev')
                    confr, what_r = h.confirm(case, 'release')
                    # a replay binary that does not know the scenario has confirmed nothing
                    if 'unknown case kind' in str(what_d): confd = False
                    if 'unknown case kind' in str(what_r): confr = False
                except Exception as e:
                    inconclusive.append('%s: replay error %s: %s' % (h.name, type(e).__name__, e)); continue
                rec = {'property': pid, 'harness': h.name, 'oblig': v['oblig'], 'class': hit['class'], 'case': case,
                       'dev': what_d, 'release': what_r, 'path_prefix': r['prefix'], 'tree_hash': it.dump_info['tree_hash']}
                if not (confd or confr):
                    fn = os.path.join(OUT, pid, 'unreproduced-%s-%s.json' % (h.name, hashlib.sha1(json.dumps(case, sort_keys=True).encode()).hexdigest()[:10]))
                    json.dump(rec, open(fn, 'w'), indent=1)
                    inconclusive.append('%s: solver counterexample for %s did not reproduce natively (encoding or model wrong): %s' % (h.name, v['oblig'], fn))
                    continue
                rec['profiles_reproduced'] = [p for p, c in (('dev', confd), ('release', confr)) if c]
                kf = known_keys.get((h.name, hit['class'])) if hit['class'] else None
                if kf:
                    known_hit.setdefault((h.name, hit['class']), (kf, rec))
                else:
                    fn = os.path.join(OUT, pid, 'violation-%s-%s.json' % (h.name, hashlib.sha1(json.dumps(case, sort_keys=True).encode()).hexdigest()[:10]))
                    json.dump(rec, open(fn, 'w'), indent=1)
                    if fn not in [v[0] for v in violations]: violations.append((fn, rec))
        log('%s: %d paths %s, %d obligations %s, %.1fs' % (h.name, len(rs), oc, nobl, stat, time.time() - th))
    cov['functions_encoded'] = fn_hashes(it, {c for c in called_all if not c.startswith('<')})
    cov['n_functions_encoded'] = len(cov['functions_encoded'])
    cov['known_findings_hit'] = [{'harness': k[0], 'class': k[1], 'what': v[0]['what'], 'example': v[1]['case']} for k, v in known_hit.items()]
    cov['solver_time_s'] = round(cov['solver_time_s'], 2)
    cov['solver'] = 'z3 ' + z3.get_version_string()
    if extra_cov: cov.update(extra_cov)
    if not cov['samples']: cov['samples'] = [{'note': 'no path executed'}]
    for k, (kf, rec) in known_hit.items():
        log('KNOWN-FINDING: property=%s %s [%s/%s] e.g. %s' % (pid, kf['what'], k[0], k[1], json.dumps(rec['case'].get('show', rec['case']))[:300]))
    seen = set()
    for fn, rec in violations:
        log('VIOLATION property=%s replay=%s' % (pid, fn))
        log('  %s / %s: %s' % (rec['harness'], rec['oblig'], json.dumps(rec['case'].get('show', rec['case']))[:400]))
        log('  native dev: %s | release: %s' % (rec['dev'], rec['release']))
    for m in inconclusive: log('INCONCLUSIVE: ' + m)
    rc = 1 if violations else (2 if inconclusive else 0)
    note = '; '.join(inconclusive)[:2000] if inconclusive else ''
    write_evidence(pid, tier, seed, level, cov, assumptions, time.time() - t00, len(violations), note)
    log('%s %s: exit %d (%.1fs, %d paths, %d queries, solver %.1fs)' % (pid, tier, rc, time.time() - t00, cov['states'], cov['queries'], cov['solver_time_s']))
    return rc

def write_evidence(pid, tier, seed, level, cov, assumptions, wall, nviol, note=''):
    cov = dict(cov)
    cov['states'] = max(cov.get('states', 0), 0); cov['transitions'] = max(cov.get('transitions', 0), 0)
    cov.setdefault('explanation', 'bounded symbolic execution of the MIR of the real code; each obligation is decided by z3 on every feasible path')
    if note: cov['inconclusive'] = note
    cov.setdefault('evaluations', max(cov.get('states', 0), 1))
    cov.setdefault('distinct_nontrivial', max(cov.get('paths_with_obligations', cov.get('states', 0)), 0))
    cov.setdefault('rule', 'one evaluation = one feasible execution path of the harness (a distinct class of inputs/faults decided by the solver); a path is non-trivial when it reaches at least one obligation; paths are distinct by construction (different branch decisions)')
    ev = {'property_id': pid, 'tier': tier, 'seed': seed, 'level': level, 'coverage': cov,
          'assumptions': list(assumptions), 'wall_s': round(wall, 2), 'violations': nviol}
    tmp = os.path.join(EVID, pid + '.json.tmp')
    json.dump(ev, open(tmp, 'w'), indent=1, default=str)
    os.replace(tmp, os.path.join(EVID, pid + '.json'))
