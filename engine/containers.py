"""Contract models of std collections: HashMap (association list, unordered), BTreeSet/BTreeMap (ordered list).
A look-up with a symbolic key forks on equality with each present key; ordered insertion forks on the order relation.
Iteration order of a HashMap is insertion order by default, or a solver-chosen permutation when `it.hash_order == 'symbolic'`."""
import re, itertools
import z3
from .core import *
from .models import model, reg, B, rest, it_of, elem_refs, materialize, REG

class HMap:
    def __init__(self): self.items = []          # [[key, value], ...]
    def __getitem__(self, i): return self.items[i]
    def __setitem__(self, i, v): self.items[i] = v
class BSet:
    def __init__(self): self.items = []          # ascending keys
    def __getitem__(self, i): return self.items[i]
    def __setitem__(self, i, v): self.items[i] = v
class BMap:
    def __init__(self): self.items = []          # ascending [key, value]
    def __getitem__(self, i): return self.items[i]
    def __setitem__(self, i, v): self.items[i] = v
class EntryObj:
    def __init__(self, mref, key): self.mref, self.key = mref, key

def key_eq(it, a, b):
    a, b = deref_all(a), deref_all(b)
    if isinstance(a, list):
        for x, y in zip(a, b):
            if not key_eq(it, x, y): return False
        return True
    if isinstance(a, SStr):
        if len(a.chars) != len(b.chars): return False
        return all(B(it, x == y) for x, y in zip(a.chars, b.chars))
    if isinstance(a, Adt):
        if a.variant != b.variant: return False
        return all(key_eq(it, x, y) for x, y in zip(a.fields, b.fields))
    return B(it, a == b)
def key_lt(it, a, b):
    a, b = deref_all(a), deref_all(b)
    if isinstance(a, list):
        for x, y in zip(a, b):
            if key_lt(it, x, y): return True
            if not key_eq(it, x, y): return False
        return False
    if isinstance(a, SStr):
        for x, y in zip(a.chars, b.chars):
            if B(it, x < y): return True
            if not B(it, x == y): return False
        return len(a.chars) < len(b.chars)
    return B(it, a < b)
def find(it, m, k):
    for i, kv in enumerate(m.items):
        if key_eq(it, kv[0], k): return i
    return None
def order(it, m):
    """iteration order of an unordered map: indices"""
    n = len(m.items)
    if getattr(it, 'hash_order', 'insertion') != 'symbolic' or n < 2: return list(range(n))
    it._hm_iter = getattr(it, '_hm_iter', 0) + 1
    left = list(range(n)); out = []
    for pos in range(n - 1):
        v = it.ctx.sym_int('hash_order#%d.%d' % (it._hm_iter, pos), 0, len(left) - 1)
        k = next(j for j in range(len(left)) if it.ctx.branch(v == j))
        out.append(left.pop(k))
    out.append(left[0])
    return out

_HM = r'std::collections::HashMap::<.*>::'
reg(r'<std::collections::HashMap<.*> as std::default::Default>::default', lambda it: HMap())
reg(_HM + r'(new|with_capacity|with_hasher|default)', lambda it, *a: HMap())
reg(_HM + r'len', lambda it, m: len(deref_all(m).items))
reg(_HM + r'is_empty', lambda it, m: len(deref_all(m).items) == 0)
@model(_HM + r'clear')
def hm_clear(it, m): deref_all(m).items[:] = []; return []
@model(_HM + r'(get|get_mut)::<.*>')
def hm_get(it, mr, k):
    r = root_ref(mr); i = find(it, r.get(), k)
    return SOME(Ref(r.box, r.path + (i, 1))) if i is not None else NONE()
@model(_HM + r'contains_key::<.*>')
def hm_contains(it, mr, k): return find(it, deref_all(mr), k) is not None
@model(_HM + r'insert')
def hm_insert(it, mr, k, v):
    m = deref_all(mr); i = find(it, m, k)
    if i is None: m.items.append([k, v]); return NONE()
    old = m.items[i][1]; m.items[i][1] = v; return SOME(old)
@model(_HM + r'remove::<.*>')
def hm_remove(it, mr, k):
    m = deref_all(mr); i = find(it, m, k)
    return SOME(m.items.pop(i)[1]) if i is not None else NONE()
def hm_entry(it, mr, k):
    # enum Entry { Occupied(OccupiedEntry), Vacant(VacantEntry) }: decided when the entry is taken
    i = find(it, deref_all(mr), k)
    return Adt(0 if i is not None else 1, [EntryObj(mr, k)], 'std::collections::hash_map::Entry')
reg(_HM + r'entry', hm_entry)
def _eo(e):
    e = deref_all(e)
    return deref_all(e.fields[0]) if isinstance(e, Adt) else e
_OE = r"std::collections::hash_map::OccupiedEntry::<'_, .*>::"
_VE = r"std::collections::hash_map::VacantEntry::<'_, .*>::"
def _slot(it, e):
    e = _eo(e); r = root_ref(e.mref); i = find(it, r.get(), e.key)
    return e, r, i
@model(_OE + r'(get|get_mut|into_mut)')
def oe_get(it, e):
    e, r, i = _slot(it, e)
    if i is None: raise Panic('occupied entry without a slot')
    return Ref(r.box, r.path + (i, 1))
@model(_OE + r'insert')
def oe_insert(it, e, v):
    e, r, i = _slot(it, e); m = r.get(); old = m.items[i][1]; m.items[i][1] = v; return old
@model(_OE + r'(remove)')
def oe_remove(it, e):
    e, r, i = _slot(it, e); return r.get().items.pop(i)[1]
@model(_OE + r'(remove_entry)')
def oe_remove_entry(it, e):
    e, r, i = _slot(it, e); kv = r.get().items.pop(i); return [kv[0], kv[1]]
reg(r"std::collections::hash_map::(Occupied|Vacant)Entry::<'_, .*>::key", lambda it, e: Ref(Box_(_eo(e).key)))
reg(_VE + r'into_key', lambda it, e: _eo(e).key)
@model(_VE + r'(insert|insert_entry)')
def ve_insert(it, e, v):
    e, r, i = _slot(it, e); m = r.get()
    if i is None: m.items.append([e.key, v]); i = len(m.items) - 1
    else: m.items[i][1] = v
    return Ref(r.box, r.path + (i, 1))
reg(r"std::collections::hash_map::Entry::<'_, .*>::key", lambda it, e: Ref(Box_(_eo(e).key)))
@model(r"std::collections::hash_map::Entry::<'_, .*>::and_modify::<.*>")
def hm_and_modify(it, e, clo):
    eo, r, i = _slot(it, e)
    if i is not None: it.call_closure(clo, Ref(r.box, r.path + (i, 1)))
    return e
@model(r"std::collections::hash_map::Entry::<'_, .*>::or_insert_with::<.*>")
def hm_or_insert_with(it, e, clo):
    e = _eo(e); r = root_ref(e.mref); m = r.get(); i = find(it, m, e.key)
    if i is None:
        v = it.call_closure(clo); m.items.append([e.key, v]); i = len(m.items) - 1
    return Ref(r.box, r.path + (i, 1))
@model(r"std::collections::hash_map::Entry::<'_, .*>::(or_insert|or_default)")
def hm_or_insert(it, e, *v):
    e = _eo(e); r = root_ref(e.mref); m = r.get(); i = find(it, m, e.key)
    if i is None:
        if not v: raise Unsupported('Entry::or_default')
        m.items.append([e.key, v[0]]); i = len(m.items) - 1
    return Ref(r.box, r.path + (i, 1))
@model(_HM + r'retain::<.*>')
def hm_retain(it, mr, clo):
    r = root_ref(mr); m = r.get(); keep = []
    for i in order(it, m):
        if B(it, it.call_closure(clo, Ref(r.box, r.path + (i, 0)), Ref(r.box, r.path + (i, 1)))): keep.append(i)
    m.items[:] = [m.items[i] for i in sorted(keep)]
    return []
def _r(mr): return root_ref(mr) if isinstance(mr, Ref) else Ref(Box_(mr))
reg(_HM + r'(values|values_mut)', lambda it, mr: PyIter([Ref(_r(mr).box, _r(mr).path + (i, 1)) for i in order(it, deref_all(mr))]))
reg(_HM + r'keys', lambda it, mr: PyIter([Ref(_r(mr).box, _r(mr).path + (i, 0)) for i in order(it, deref_all(mr))]))
reg(_HM + r'(iter|iter_mut)', lambda it, mr: PyIter([[Ref(_r(mr).box, _r(mr).path + (i, 0)), Ref(_r(mr).box, _r(mr).path + (i, 1))] for i in order(it, deref_all(mr))]))
reg(_HM + r'(into_values)', lambda it, m: PyIter([m.items[i][1] for i in order(it, m)]))
reg(_HM + r'(into_keys)', lambda it, m: PyIter([m.items[i][0] for i in order(it, m)]))
def hm_into_iter(self, it, x):
    if isinstance(x, Ref):
        r = root_ref(x)
        return PyIter([[Ref(r.box, r.path + (i, 0)), Ref(r.box, r.path + (i, 1))] for i in order(it, self)])
    return PyIter([list(self.items[i]) for i in order(it, self)])
HMap.into_iter = hm_into_iter
@model(r'<.* as std::iter::Iterator>::collect::<std::collections::HashMap<.*>>')
def collect_hmap(it, itr):
    m = HMap()
    for kv in rest(materialize(it, itr)): hm_insert(it, Ref(Box_(m)), kv[0], kv[1])
    return m
@model(r'<std::collections::HashMap<.*> as std::iter::Extend<.*>>::extend::<.*>')
def hm_extend(it, mr, src):
    from .models import m_into_iter
    for kv in rest(materialize(it, m_into_iter(it, src))): hm_insert(it, mr, kv[0], kv[1])
    return []
@model(r'<std::collections::HashMap<.*> as std::ops::Index<.*>>::index')
def hm_index(it, mr, k):
    r = root_ref(mr); i = find(it, r.get(), k)
    if i is None: raise Panic('HashMap index: key not found')
    return Ref(r.box, r.path + (i, 1))
def deepclone(it, v):
    if isinstance(v, Ref): return v
    if isinstance(v, BoxPtr): return BoxPtr(Box_(deepclone(it, v.cell.v)))
    if isinstance(v, Adt): return Adt(v.variant, [deepclone(it, x) for x in v.fields], v.ty)
    if isinstance(v, list): return [deepclone(it, x) for x in v]
    if isinstance(v, SStr): return SStr(v.chars)
    if isinstance(v, (HMap, BSet, BMap)):
        m = type(v)(); m.items = [deepclone(it, x) for x in v.items]; return m
    return v
reg(r'<(std::collections::HashMap|std::collections::BTreeSet|std::collections::BTreeMap)<.*> as std::clone::Clone>::clone', lambda it, a: deepclone(it, deref_all(a)))

# ---- BTreeSet
_BS = r'std::collections::BTreeSet::<.*>::'
reg(r'<std::collections::BTreeSet<.*> as std::default::Default>::default', lambda it: BSet())
reg(_BS + r'new', lambda it: BSet())
reg(_BS + r'len', lambda it, s: len(deref_all(s).items))
reg(_BS + r'is_empty', lambda it, s: len(deref_all(s).items) == 0)
@model(_BS + r'insert')
def bs_insert(it, sr, k):
    s = deref_all(sr)
    for i, kk in enumerate(s.items):
        if key_eq(it, kk, k): return False
        if key_lt(it, k, kk): s.items.insert(i, k); return True
    s.items.append(k); return True
@model(_BS + r'remove::<.*>')
def bs_remove(it, sr, k):
    s = deref_all(sr); k = deref_all(k)
    for i, kk in enumerate(s.items):
        if key_eq(it, kk, k): s.items.pop(i); return True
    return False
@model(_BS + r'contains::<.*>')
def bs_contains(it, sr, k):
    return any(key_eq(it, kk, deref_all(k)) for kk in deref_all(sr).items)
@model(_BS + r'retain::<.*>')
def bs_retain(it, sr, clo):
    s = deref_all(sr)
    s.items[:] = [k for k in list(s.items) if B(it, it.call_closure(clo, Ref(Box_(k))))]
    return []
@model(_BS + r'clear')
def bs_clear(it, s): deref_all(s).items[:] = []; return []
@model(_BS + r'range::<.*>')
def bs_range(it, sr, rng):
    s = deref_all(sr); f = rng.fields
    if rng.ty == 'incl' or len(f) == 3: out = [k for k in s.items if not key_lt(it, k, f[0]) and not key_lt(it, f[1], k)]
    else: out = [k for k in s.items if not key_lt(it, k, f[0]) and key_lt(it, k, f[1])]
    return PyIter([Ref(Box_(k)) for k in out])
reg(_BS + r'iter', lambda it, sr: PyIter([Ref(Box_(k)) for k in deref_all(sr).items]))
reg(_BS + r'(last)', lambda it, sr: SOME(Ref(Box_(deref_all(sr).items[-1]))) if deref_all(sr).items else NONE())
reg(_BS + r'(first)', lambda it, sr: SOME(Ref(Box_(deref_all(sr).items[0]))) if deref_all(sr).items else NONE())
BSet.into_iter = lambda self, it, x: PyIter([Ref(Box_(k)) for k in self.items] if isinstance(x, Ref) else list(self.items))
@model(r'<.* as std::iter::Iterator>::collect::<std::collections::BTreeSet<.*>>')
def collect_bset(it, itr):
    s = BSet()
    for k in rest(materialize(it, itr)): bs_insert(it, Ref(Box_(s)), k)
    return s

# ---------------------------------------------------------------- HashSet (unordered: iteration order as for HashMap)
class HSet(HMap):
    """items are [key, None]"""
_HS = r'std::collections::HashSet::<.*>::'
reg(r'<std::collections::HashSet<.*> as std::default::Default>::default', lambda it: HSet())
reg(_HS + r'(new|with_capacity|with_hasher|default)', lambda it, *a: HSet())
reg(_HS + r'len', lambda it, m: len(deref_all(m).items))
reg(_HS + r'is_empty', lambda it, m: len(deref_all(m).items) == 0)
@model(_HS + r'insert')
def hs_insert(it, mr, k):
    m = deref_all(mr)
    if find(it, m, k) is not None: return False
    m.items.append([k, None]); return True
@model(_HS + r'contains::<.*>')
def hs_contains(it, mr, k): return find(it, deref_all(mr), k) is not None
@model(_HS + r'remove::<.*>')
def hs_remove(it, mr, k):
    m = deref_all(mr); i = find(it, m, k)
    if i is None: return False
    m.items.pop(i); return True
reg(_HS + r'iter', lambda it, mr: PyIter([Ref(_r(mr).box, _r(mr).path + (i, 0)) for i in order(it, deref_all(mr))]))
def hs_into_iter(self, it, x):
    if isinstance(x, Ref):
        r = root_ref(x)
        return PyIter([Ref(r.box, r.path + (i, 0)) for i in order(it, self)])
    return PyIter([self.items[i][0] for i in order(it, self)])
HSet.into_iter = hs_into_iter
@model(r'<.* as std::iter::Iterator>::collect::<std::collections::HashSet<.*>>')
def collect_hset(it, itr):
    m = HSet()
    for k in rest(materialize(it, itr)): hs_insert(it, Ref(Box_(m)), k)
    return m
