"""mirsym core: loader for rustc MIR text, value model, path-enumerating symbolic interpreter.

The interpreter executes the MIR bodies that `rustc -Zunpretty=mir` prints for /repo's current source.
Inputs may be z3 integer terms; at a branch on a symbolic condition the solver decides which sides are
feasible and the executor follows one and queues the other (re-execution forking by decision prefix).
"""
import re, sys, os, glob, time, functools
import z3

# ---------------------------------------------------------------- exceptions
class Panic(Exception):
    """the Rust code panics on this path"""
class Unsupported(Exception):
    """a construct or external callee the engine has no semantics for: never a verdict"""
class Budget(Exception):
    """step budget exhausted (candidate non-termination)"""
class Infeasible(Exception):
    """assumption made the path infeasible"""

# ---------------------------------------------------------------- values
class Box_:
    __slots__ = ('v',)
    def __init__(self, v=None): self.v = v
class Ref:
    """reference/pointer = storage cell + projection path"""
    __slots__ = ('box', 'path')
    def __init__(self, box, path=()): self.box, self.path = box, path
    def get(self):
        v = self.box.v
        for p in self.path: v = v[p]
        return v
    def set(self, val):
        if not self.path: self.box.v = val; return
        v = self.box.v
        for p in self.path[:-1]: v = v[p]
        v[self.path[-1]] = val
    def proj(self, *p): return Ref(self.box, self.path + tuple(p))
class Adt:
    __slots__ = ('variant', 'fields', 'ty')
    def __init__(self, variant, fields, ty=None): self.variant, self.fields, self.ty = variant, fields, ty
    def __getitem__(self, i): return self.fields[i]
    def __setitem__(self, i, v): self.fields[i] = v
    def __repr__(self): return 'Adt(%s,%r)' % (self.variant, self.fields)
class SStr:
    """string = list of code points (python ints or z3 Int terms); length concrete on each path"""
    __slots__ = ('chars',)
    def __init__(self, chars): self.chars = list(chars)
    def __getitem__(self, i): return self
    def __setitem__(self, i, v):
        if isinstance(v, SStr): self.chars = list(v.chars)
        elif isinstance(v, list): self.chars = list(v)
    def __repr__(self): return 'SStr(' + ''.join(chr(c) if isinstance(c, int) else '?' for c in self.chars) + ')'
class FnItem:
    def __init__(self, name): self.name = name
class Closure:
    def __init__(self, fn, captures): self.fn, self.captures = fn, captures
    def __getitem__(self, i): return self.captures[i]
    def __setitem__(self, i, v): self.captures[i] = v
class BoxPtr:
    """Box<T>/Arc<T>: pointer object owning a cell"""
    def __init__(self, cell): self.cell = cell
    def __getitem__(self, i): return self      # Unique / NonNull wrappers project to themselves
class PyIter:
    """iterator over an already materialised list"""
    def __init__(self, items): self.items, self.i = list(items), 0
class Uninit:
    def __init__(self): self.val = None
    def __getitem__(self, i): return self
    def __setitem__(self, i, v): self.val = v

def S(pystr): return SStr([ord(c) for c in pystr])
def NONE(): return Adt(0, [])
def SOME(v): return Adt(1, [v])
def OK(v): return Adt(0, [v], 'Result')
def ERR(v): return Adt(1, [v], 'Result')
def adt_kind(d):
    """'some' / 'none' / 'ok' / 'err' for Option and Result values (built by models or by MIR), else None"""
    if not isinstance(d, Adt) or isinstance(d.variant, str): return None
    ty = d.ty or ''
    if ty == 'Result' or '::Result::' in ty or ty.startswith('std::result::Result'): return 'ok' if d.variant == 0 else 'err'
    if '::Option::' in ty or ty.startswith('std::option::Option'): return 'some' if d.variant == 1 else 'none'
    if d.ty is None:
        if d.variant == 1 and len(d.fields) == 1: return 'some'
        if d.variant == 0 and len(d.fields) == 0: return 'none'
    return None
def deref(v): return v.get() if isinstance(v, Ref) else v
def deref_all(v):
    while isinstance(v, Ref): v = v.get()
    return v
def root_ref(r):
    while isinstance(r.get(), Ref): r = r.get()
    return r
def is_sym(v): return isinstance(v, z3.ExprRef)
def pstr(v):
    return ''.join(chr(c) for c in deref_all(v).chars)

INT_RANGE = {
    'u8': (0, 2**8 - 1), 'u16': (0, 2**16 - 1), 'u32': (0, 2**32 - 1), 'u64': (0, 2**64 - 1), 'usize': (0, 2**64 - 1),
    'u128': (0, 2**128 - 1),
    'i8': (-2**7, 2**7 - 1), 'i16': (-2**15, 2**15 - 1), 'i32': (-2**31, 2**31 - 1), 'i64': (-2**63, 2**63 - 1),
    'isize': (-2**63, 2**63 - 1), 'i128': (-2**127, 2**127 - 1), 'char': (0, 0x10FFFF),
}

# ---------------------------------------------------------------- MIR text parsing
def split_top(s, sep):
    out, depth, cur, i, instr = [], 0, [], 0, False
    n = len(s)
    while i < n:
        c = s[i]
        if instr:
            cur.append(c)
            if c == '\\': cur.append(s[i+1]); i += 1
            elif c == '"': instr = False
        elif c == '"': instr = True; cur.append(c)
        elif c == "'" and i + 2 < n and (s[i+2] == "'" or (s[i+1] == '\\')):
            j = s.index("'", i + 2 if s[i+1] != '\\' else i + 3)
            cur.append(s[i:j+1]); i = j
        elif c in '([{<' and not (c == '<' and s[i-1:i] in (' ', '')): depth += 1; cur.append(c)
        elif c in ')]}>' and not (c == '>' and s[i-1:i] in ('-', '=')): depth -= 1; cur.append(c)
        elif c == sep and depth == 0: out.append(''.join(cur)); cur = []
        else: cur.append(c)
        i += 1
    out.append(''.join(cur))
    return out

class Fn:
    def __init__(self, name, params, param_types, ret, body):
        self.name, self.params, self.param_types, self.ret = name, params, param_types, ret
        self.blocks, self.local_types = {}, {}
        self.text = body
        cur = None
        for line in body.split('\n'):
            s = line.strip()
            if cur is None:
                m = _RE_BB.match(s)
                if m: cur = int(m.group(1)); self.blocks[cur] = []; continue
                m = _RE_LET.match(s)
                if m: self.local_types[m.group(2)] = m.group(3)
                continue
            if s == '}': cur = None; continue
            if s: self.blocks[cur].append(s)
        for p, t in zip(params, param_types): self.local_types.setdefault(p, t)
        self.local_types.setdefault('_0', ret)
        self.code = {}
_RE_BB = re.compile(r'^bb(\d+)( \(cleanup\))?: \{$')
_RE_LET = re.compile(r'^let (mut )?(_\d+): (.*);$')

class Mir:
    def __init__(self, path):
        txt = open(path).read()
        self.fns, self.consts, self.closures, self.inline_consts = {}, {}, {}, {}
        self.dups = {}
        for m in re.finditer(r'^fn ([^\n]*?)\((.*?)\) -> ([^\n]*?) \{\n(.*?)^\}', txt, re.S | re.M):
            name = m.group(1); pstr_, ret = m.group(2), m.group(3)
            if pstr_.count('(') != pstr_.count(')'):
                # a parameter type with its own `) -> ` (impl Fn(&T) -> U): take the parameter list up to the balancing parenthesis
                line = txt[m.start():txt.index('\n', m.start())]
                a = line.index('(', 3 + len(name)); depth = 0; b = None
                for i in range(a, len(line)):
                    if line[i] == '(': depth += 1
                    elif line[i] == ')':
                        depth -= 1
                        if depth == 0: b = i; break
                if b is not None and line[b:b + 5] == ') -> ' and line.endswith(' {'):
                    pstr_, ret = line[a + 1:b], line[b + 5:-2]
            plist = [p for p in split_top(pstr_, ',') if p.strip()]
            params = [p.split(':')[0].strip() for p in plist]
            ptypes = [p.split(':', 1)[1].strip() for p in plist]
            f = Fn(name, params, ptypes, ret, m.group(4))
            if name in self.fns: self.dups.setdefault(name, [self.fns[name]]).append(f)
            else: self.fns[name] = f
            if re.search(r'\{closure#\d+\}$', name) and ptypes:
                hm = re.match(r'&?(?:mut )?(\{closure@[^}]*\})', ptypes[0])
                if hm: self.closures[hm.group(1)] = name
        for m in re.finditer(r'^const ([^\n]*?::promoted\[\d+\]): ([^\n]*?) = \{\n(.*?)^\}', txt, re.S | re.M):
            self.consts[m.group(1)] = Fn(m.group(1), [], [], m.group(2), m.group(3))
        for m in re.finditer(r'^const ((?:<impl at [^>]*>|[^\n:]|::)*?): ([^\n]*?) = \{\n(.*?)^\}', txt, re.S | re.M):
            self.consts.setdefault(m.group(1), Fn(m.group(1), [], [], m.group(2), m.group(3)))
        for m in re.finditer(r'^static (?:mut )?([^\n]*?): ([^\n]*?) = \{\n(.*?)^\}', txt, re.S | re.M):
            self.consts[m.group(1)] = Fn(m.group(1), [], [], m.group(2), m.group(3))
        for m in re.finditer(r'^const ((?:<impl at [^>]*>|[^\s:]|::)+): [^\n]*? = (const [^\n]*);$', txt, re.M):
            self.inline_consts[m.group(1)] = m.group(2)

def load_source_info(srcroot):
    """enum variant order, struct field names and source lines (for impl headers), read from the same tree as the MIR"""
    enums, structs, files = {}, {}, {}
    base = os.path.dirname(srcroot.rstrip('/'))
    for path in glob.glob(os.path.join(srcroot, '**', '*.rs'), recursive=True):
        txt = open(path).read(); rel = os.path.relpath(path, base)
        files[rel] = txt.split('\n')
        mod = rel[len('src/'):-3].replace('/', '::')
        for m in re.finditer(r'\benum (\w+)\s*\{(.*?)\n\}', txt, re.S):
            body = re.sub(r'//[^\n]*', '', m.group(2)); body = re.sub(r'#\[[^\]]*\]', '', body)
            vs = []
            for part in split_top(body, ','):
                mm = re.match(r'\s*(\w+)', part)
                if mm: vs.append(mm.group(1))
            enums.setdefault(m.group(1), vs); enums[mod + '::' + m.group(1)] = vs
        for m in re.finditer(r'\bstruct (\w+)(?:<[^>]*>)?\s*\{(.*?)\n\}', txt, re.S):
            body = re.sub(r'//[^\n]*', '', m.group(2)); body = re.sub(r'#\[[^\]]*\]', '', body)
            fs = []
            for part in split_top(body, ','):
                mm = re.match(r'\s*(?:pub(?:\([^)]*\))?\s+)?(\w+)\s*:\s*(.*)', part, re.S)
                if mm: fs.append((mm.group(1), mm.group(2).strip()))
            structs.setdefault(m.group(1), fs); structs[mod + '::' + m.group(1)] = fs
    return enums, structs, files

def impl_self_of(span, files):
    """'src/helper/formula.rs:59:1: 59:18' -> ((trait short, trait full) or derive token, self type name)"""
    m = re.match(r'(.*?):(\d+):(\d+): (\d+):(\d+)', span)
    f, l1, c1, l2, c2 = m.group(1), int(m.group(2)), int(m.group(3)), int(m.group(4)), int(m.group(5))
    lines = files[f]
    text = lines[l1-1][c1-1:c2-1] if l1 == l2 else lines[l1-1][c1-1:]
    if text.startswith('impl'):
        hdr = ' '.join(lines[l1-1:l2])[c1-1:]
        hdr = hdr.split('{')[0]
        mm = re.match(r'impl(?:<[^>]*>)?\s+(?:(.*?)\s+for\s+)?([\w:]+)', hdr)
        if mm.group(1):
            return (mm.group(1).split('<')[0].split('::')[-1], re.sub(r'\s+', '', mm.group(1))), mm.group(2).split('::')[-1]
        return (None, None), mm.group(2).split('::')[-1]
    for k in range(l1 - 1, min(l1 + 12, len(lines))):
        mm = re.search(r'\b(?:struct|enum)\s+(\w+)', lines[k])
        if mm: return (text, text), mm.group(1)
    raise Unsupported('impl span ' + span)

# ---- statement compilation (memoised on the statement text)
_RE_LOCAL = re.compile(r'_\d+$')
@functools.lru_cache(maxsize=None)
def c_place(s):
    s = s.strip()
    if _RE_LOCAL.match(s): return ('local', s)
    if s.startswith('(*') and s.endswith(')'): return ('deref', c_place(s[2:-1]))
    m = re.fullmatch(r'\((.*)\.(\d+): .*\)', s)
    if m and _balanced(m.group(1)): return ('field', c_place(m.group(1)), int(m.group(2)))
    if s.startswith('(') and s.endswith(')'):
        # find the '.N: ' split at depth 1 from the right
        inner = s[1:-1]
        k = _find_field_split(inner)
        if k is not None:
            base, rest = inner[:k], inner[k+1:]
            idx = int(rest.split(':', 1)[0])
            return ('field', c_place(base), idx)
        m = re.fullmatch(r'(.*) as (\w+)', inner)
        if m: return ('downcast', c_place(m.group(1)), m.group(2))
    m = re.fullmatch(r'(.*)\[(_\d+)\]', s)
    if m: return ('index', c_place(m.group(1)), m.group(2))
    m = re.fullmatch(r'(.*)\[(-?)(\d+) of (\d+)\]', s)
    if m: return ('cindex', c_place(m.group(1)), int(m.group(3)), bool(m.group(2)))
    m = re.fullmatch(r'(.*)\[(\d+):(-?)(\d*)\]', s)
    if m: return ('subslice', c_place(m.group(1)), int(m.group(2)), bool(m.group(3)), int(m.group(4) or 0))
    raise Unsupported('place ' + s)
def _balanced(s):
    d = 0
    for c in s:
        if c in '([': d += 1
        elif c in ')]': d -= 1
        if d < 0: return False
    return d == 0
def _find_field_split(inner):
    """index of the '.' that starts '.N: type' at nesting depth 0 (rightmost)"""
    depth = 0; best = None
    i = 0
    while i < len(inner):
        c = inner[i]
        if c in '([{<': depth += 1
        elif c in ')]}>' and not (c == '>' and inner[i-1] == '-'): depth -= 1
        elif c == '.' and depth == 0:
            m = re.match(r'\.(\d+): ', inner[i:])
            if m: best = i; break
        i += 1
    return best

@functools.lru_cache(maxsize=None)
def c_operand(s):
    s = s.strip()
    if s.startswith('copy '): return ('copy', c_place(s[5:]))
    if s.startswith('move '): return ('move', c_place(s[5:]))
    if s.startswith('no_retag '): return c_operand(s[9:])
    if s.startswith('const '): return ('const', s[6:].strip())
    if '::' in s or s.startswith('{closure'): return ('fnitem', s)
    raise Unsupported('operand ' + s)

BINOP_NAMES = {'Ge', 'Gt', 'Le', 'Lt', 'Eq', 'Ne', 'Add', 'Sub', 'Mul', 'Div', 'Rem', 'AddWithOverflow', 'SubWithOverflow',
               'MulWithOverflow', 'BitAnd', 'BitOr', 'BitXor', 'Shl', 'Shr', 'AddUnchecked', 'SubUnchecked', 'MulUnchecked',
               'Offset', 'Cmp', 'ShlUnchecked', 'ShrUnchecked'}
@functools.lru_cache(maxsize=None)
def c_rvalue(s):
    s = s.strip()
    if s.startswith('&raw const (fake) ') or s.startswith('&raw mut (fake) '): return ('ref', c_place(s.split(' ', 3)[3]))
    if s.startswith('&raw const ') or s.startswith('&raw mut '): return ('ref', c_place(s.split(' ', 2)[2]))
    if s.startswith('&mut '): return ('ref', c_place(s[5:]))
    if s.startswith('&fake shallow '): return ('ref', c_place(s[14:]))
    if s.startswith('&') and not s.startswith('&&'): return ('ref', c_place(s[1:]))
    m = re.fullmatch(r'(\w+)\((.*)\)', s)
    if m and m.group(1) in BINOP_NAMES:
        a, b = split_top(m.group(2), ',')
        return ('binop', m.group(1), c_operand(a), c_operand(b))
    if m and m.group(1) in ('Not', 'Neg'): return ('unop', m.group(1), c_operand(m.group(2)))
    if m and m.group(1) == 'PtrMetadata': return ('len_of_ptr', c_operand(m.group(2)))
    if m and m.group(1) == 'Len': return ('len', c_place(m.group(2)))
    if m and m.group(1) == 'discriminant': return ('discr', c_place(m.group(2)))
    m = re.fullmatch(r'(.*) as (.*?) \((\w+(?:\(.*\))?)\)', s)
    if m and (m.group(1).startswith(('copy ', 'move ', 'const '))):
        return ('cast', c_operand(m.group(1)), m.group(2), m.group(3))
    if s.startswith('[') and s.endswith(']'):
        parts = split_top(s[1:-1], ';')
        if len(parts) == 2 and not s[1:-1].strip().startswith('('):
            return ('repeat', c_operand(parts[0]), parts[1].strip())
        return ('array', tuple(c_operand(x) for x in split_top(s[1:-1], ',') if x.strip()))
    if s.startswith('(') and s.endswith(')') and not s.startswith('(*') and not re.match(r'^\(\(*_\d+[\. ]', s):
        return ('tuple', tuple(c_operand(x) for x in split_top(s[1:-1], ',') if x.strip()))
    m = re.fullmatch(r'(\{closure@[^}]*\}) \{ (.*) \}', s)
    if m:
        parts = tuple(part.strip().split(': ', 1)[1] for part in split_top(m.group(2), ','))
        return ('closure', m.group(1), parts)
    m = re.fullmatch(r'(\{closure@[^}]*\})', s)
    if m: return ('closure', m.group(1), ())
    m = re.fullmatch(r'([\w:<>, &\'\[\]\(\);]+?) \{ (.*) \}', s)
    if m and not s.startswith(('copy ', 'move ', 'const ')):
        fields = []
        for part in split_top(m.group(2), ','):
            k, v = part.strip().split(': ', 1)
            fields.append(c_operand(v))
        return ('adt', m.group(1), tuple(fields))
    if not s.startswith(('copy ', 'move ', 'const ')):
        m = re.fullmatch(r'([\w:<>, &\'\[\]\(\);]+?::\w+)(?:\((.*)\))?', s)
        if m:
            fields = tuple(c_operand(x) for x in split_top(m.group(2), ',')) if m.group(2) else ()
            return ('variant', m.group(1), fields)
        m = re.fullmatch(r'((?:\w+::)+\w+)::<[^()]*>\((.*)\)', s)        # tuple struct of another crate: path::Name::<'_>(fields)
        if m: return ('variant', m.group(1), tuple(c_operand(x) for x in split_top(m.group(2), ',')))
    return ('use', c_operand(s))

_RE_GOTO = re.compile(r'goto -> bb(\d+)$')
_RE_SWITCH = re.compile(r'switchInt\((.*)\) -> \[(.*)\]$')
_RE_ASSERT = re.compile(r'assert\((!?)(.*?), "(.*?)"(, .*)?\) -> \[success: bb(\d+), .*\]$')
_RE_DROP = re.compile(r'drop\((.*)\) -> \[return: bb(\d+), .*\]$')
_RE_CALLTAIL = re.compile(r'(.*\)) -> (?:\[return: bb(\d+), .*\]|unwind .*|bb\d+)$')
_RE_ASSIGN = re.compile(r'(\S+|\(.*?\)) = (.*)$')
_NOPS = ('StorageLive', 'StorageDead', 'nop', 'FakeRead', 'PlaceMention', 'Retag', 'AscribeUserType', 'Coverage', 'Deinit',
         'ConstEvalCounter', 'BackwardIncompatibleDropHint')
def _match_open(head):
    """index of the '(' matching the final ')' of head (string and char literals are skipped)"""
    stack, i, n, last = [], 0, len(head), None
    while i < n:
        ch = head[i]
        if ch == '"':
            i += 1
            while head[i] != '"':
                if head[i] == '\\': i += 1
                i += 1
        elif ch == "'":
            if i + 1 < n and head[i+1] == '\\':
                i = head.index("'", i + 3 if head[i+2] == "'" else i + 2)
            elif i + 2 < n and head[i+2] == "'": i += 2
        elif ch == '(': stack.append(i)
        elif ch == ')': last = stack.pop()
        i += 1
    return last
@functools.lru_cache(maxsize=None)
def c_stmt(st):
    st = st.rstrip(';')
    if st == 'return': return ('return',)
    if st == 'unreachable': return ('unreachable',)
    if st.startswith('resume'): return ('unreachable',)
    if st.startswith(_NOPS): return ('nop',)
    if st.startswith('assume('): return ('nop',)
    m = _RE_GOTO.match(st)
    if m: return ('goto', int(m.group(1)))
    m = _RE_SWITCH.match(st)
    if m:
        arms, other = [], None
        for arm in split_top(m.group(2), ','):
            k, t = arm.strip().split(': bb')
            if k == 'otherwise': other = int(t)
            else: arms.append((int(k), int(t)))
        return ('switch', c_operand(m.group(1)), tuple(arms), other)
    m = _RE_ASSERT.match(st)
    if m: return ('assert', bool(m.group(1)), c_operand(m.group(2)), m.group(3), int(m.group(5)))
    m = _RE_DROP.match(st)
    if m: return ('drop', c_place(m.group(1)), int(m.group(2)))
    mm = _RE_CALLTAIL.match(st)
    if mm and not st.startswith(('assert(', 'drop(', 'switchInt(')):
        head, ret = mm.group(1), mm.group(2)
        j = _match_open(head)
        argstr = head[j+1:-1]; pre = head[:j]
        dm = re.match(r'^(_\d+|\(.*?\)) = (.*)$', pre)
        if dm and not pre.startswith('<'): dst, callee = c_place(dm.group(1)), dm.group(2)
        else: dst, callee = None, pre
        args = tuple(c_operand(a) for a in split_top(argstr, ',') if a.strip())
        return ('call', dst, callee, args, int(ret) if ret is not None else None)
    m = _RE_ASSIGN.match(st)
    if m: return ('assign', c_place(m.group(1)), m.group(2), m.group(1))
    raise Unsupported('stmt ' + st)

# ---------------------------------------------------------------- path context
class Ctx:
    """one execution path: decision prefix, path condition, solver; ctx.branch() is the only forking point"""
    def __init__(self, prefix, seed=0, timeout_ms=30000):
        self.prefix, self.pos, self.trace = list(prefix), 0, []
        self.solver = z3.Solver()
        self.solver.set('timeout', timeout_ms)
        self.solver.set('random_seed', seed % (2**31))
        self.pending, self.steps, self.syms = [], 0, {}
        self.model = None
        self.queries = 0; self.solver_s = 0.0; self.unknowns = 0
        self.notes = {}
        self.fork_log = [] if os.environ.get('VERIF_FORKLOG') else None
        self.fresh_n = 0
    # -- symbolic inputs
    def sym_int(self, name, lo, hi):
        v = z3.Int(name); self.syms[name] = v
        self.solver.add(v >= lo, v <= hi); self.model = None
        return v
    def sym_bool(self, name):
        v = z3.Bool(name); self.syms[name] = v
        return v
    def fresh_int(self, tag, lo, hi):
        self.fresh_n += 1
        return self.sym_int('%s#%d' % (tag, self.fresh_n), lo, hi)
    def define(self, *conds):
        """add defining constraints of fresh variables (always satisfiable extensions: no feasibility check)"""
        self.solver.add(*conds); self.model = None
    def divmod(self, a, b):
        """Euclidean a div b, a mod b for symbolic a >= 0 and concrete b > 0, as fresh variables with the division lemma
        (keeps the queries linear: z3's div/mod terms are far slower)"""
        key = (a.get_id(), b)
        dm = self.__dict__.setdefault('_dm', {})
        if key not in dm:
            self.fresh_n += 1
            q = z3.Int('q#%d' % self.fresh_n); r = z3.Int('r#%d' % self.fresh_n)
            self.define(a == q * b + r, r >= 0, r < b)
            dm[key] = (q, r, a)
        return dm[key][0], dm[key][1]
    def digits(self, v, nd):
        """decimal digits (most significant first) of symbolic v known to have exactly nd digits, as fresh variables"""
        key = (v.get_id(), nd)
        dg = self.__dict__.setdefault('_dg', {})
        if key not in dg:
            ds = []
            for k in range(nd):
                self.fresh_n += 1
                d = z3.Int('dg#%d' % self.fresh_n); ds.append(d)
            tot = 0
            for d in ds: tot = tot * 10 + d
            self.define(tot == v, *[z3.And(d >= 0, d <= 9) for d in ds])
            dg[key] = (ds, v)
        return list(dg[key][0])
    def assume(self, cond):
        if isinstance(cond, bool):
            if not cond: raise Infeasible()
            return
        self.solver.add(cond); self.model = None
        if not self._check(): raise Infeasible()
    def _check(self, *extra):
        t0 = time.time(); self.queries += 1
        r = self.solver.check(*extra)
        self.solver_s += time.time() - t0
        if r == z3.unknown:
            self.unknowns += 1
            raise Unsupported('solver unknown: ' + self.solver.reason_unknown())
        return r == z3.sat
    def _holds_in_model(self, cond):
        if self.model is None: return None
        try:
            v = self.model.eval(cond, model_completion=True)
            if z3.is_true(v): return True
            if z3.is_false(v): return False
        except z3.Z3Exception: pass
        return None
    def feasible(self, c):
        self.solver.push()
        try:
            self.solver.add(c)
            ok = self._check()
            if ok: self._last_model = self.solver.model()
            return ok
        finally: self.solver.pop()
    def branch(self, cond):
        if isinstance(cond, bool): return cond
        cond = z3.simplify(cond)
        if z3.is_true(cond): return True
        if z3.is_false(cond): return False
        if self.pos < len(self.prefix):
            d = self.prefix[self.pos]
            self.model = None
        else:
            if self.model is None:
                if self._check(): self.model = self.solver.model()
                else: raise Infeasible()
            h = self._holds_in_model(cond)
            if h is True:
                t = True; f = self.feasible(z3.Not(cond)); keep = True
            elif h is False:
                f = True; t = self.feasible(cond); keep = False
            else:
                t = self.feasible(cond); f = self.feasible(z3.Not(cond)); keep = None
            if t and f:
                d = True if keep is None else keep
                self.pending.append(self.trace + [not d])
                if self.fork_log is not None: self.fork_log.append(str(cond)[:120])
                if keep is None: self.model = None
            elif t: d = True
            elif f: d = False
            else: raise Infeasible()
            if keep is None: self.model = None
        self.pos += 1; self.trace.append(d)
        self.solver.add(cond if d else z3.Not(cond))
        return d
    def B(self, e):
        return self.branch(e) if not isinstance(e, bool) else e
    def concretize(self, v):
        """the unique value of v on this path, or None"""
        if isinstance(v, (int, bool)): return v
        if not self._check(): raise Infeasible()
        val = self.solver.model().eval(v, model_completion=True)
        self.solver.push(); self.solver.add(v != val)
        try: r = self._check()
        finally: self.solver.pop()
        return (val.as_long() if z3.is_int_value(val) else z3.is_true(val)) if not r else None
    def check_sat(self, cond):
        """is path_condition ∧ cond satisfiable?  -> (status, model_dict)"""
        if isinstance(cond, bool):
            if not cond: return 'unsat', None
            cond = z3.BoolVal(True)
        self.solver.push()
        try:
            self.solver.add(cond)
            t0 = time.time(); self.queries += 1
            r = self.solver.check(); self.solver_s += time.time() - t0
            if r == z3.unsat: return 'unsat', None
            if r == z3.unknown: self.unknowns += 1; return 'unknown', None
            m = self.solver.model()
            out = {}
            for k, v in self.syms.items():
                val = m.eval(v, model_completion=True)
                out[k] = val.as_long() if z3.is_int_value(val) else z3.is_true(val)
            return 'sat', out
        finally: self.solver.pop()
    def smt2(self, cond=None):
        self.solver.push()
        try:
            if cond is not None: self.solver.add(cond)
            return self.solver.to_smt2()
        finally: self.solver.pop()

# ---------------------------------------------------------------- interpreter
def zint(v): return v
def generic_tail(callee):
    """(start of the trailing `::<...>`, its inside) of a path, for any nesting depth; None when the path does not end with one"""
    if not callee.endswith('>') or callee.endswith('->'): return None
    depth = 0; i = len(callee) - 1
    while i >= 0:
        ch = callee[i]
        if ch == '>' and not (i > 0 and callee[i - 1] == '-'): depth += 1
        elif ch == '<':
            depth -= 1
            if depth == 0: break
        i -= 1
    if i < 2 or callee[i - 2:i] != '::': return None
    return (i - 2, callee[i + 1:-1])
def in_range(v, ty):
    lo, hi = INT_RANGE[ty]
    if isinstance(v, int): return lo <= v <= hi
    return z3.And(v >= lo, v <= hi)
def wrap_to(it, v, ty):
    """`as` conversion between integer types: value mod 2^n in the target's range"""
    if isinstance(v, bool): v = int(v)
    if is_sym(v) and z3.is_bool(v): v = z3.If(v, 1, 0)
    lo, hi = INT_RANGE[ty]; n = hi - lo + 1
    if isinstance(v, int): return (v - lo) % n + lo
    if it.ctx.B(in_range(v, ty)): return v
    return (v - lo) % n + lo
def sdiv(a, b):
    """Rust integer division (truncating)"""
    if isinstance(a, int) and isinstance(b, int):
        q = abs(a) // abs(b)
        return q if (a >= 0) == (b >= 0) else -q
    return z3.If(z3.Or(a >= 0, a % b == 0), a / b, z3.If(b > 0, a / b + 1, a / b - 1)) if True else a / b
def srem(a, b):
    if isinstance(a, int) and isinstance(b, int):
        r = abs(a) % abs(b)
        return r if a >= 0 else -r
    return a - sdiv(a, b) * b

class Interp:
    STEP_BUDGET = 200000
    def __init__(self, mirpath, srcroot, smir_path=None):
        self.mir = Mir(mirpath)
        self.fns, self.consts, self.closures = self.mir.fns, self.mir.consts, self.mir.closures
        self.enums, self.structs, self.files = load_source_info(srcroot)
        self.smir_closure_ops = {}
        if smir_path and os.path.exists(smir_path):
            btxt = open(smir_path).read()
            for mm in re.finditer(r'= (\{closure@[^}]*\})\((.*)\);', btxt):
                self.smir_closure_ops.setdefault(mm.group(1), []).append([x.strip() for x in mm.group(2).split(', ')])
        self.ctx = None
        self.impls = {}
        for name in self.fns:
            m = re.match(r'(.*)::<impl at (.*?)>::(\w+)$', name)
            if m and m.group(2).startswith('src/'):
                try: tr, ty = impl_self_of(m.group(2), self.files)
                except (KeyError, Unsupported, AttributeError): continue
                full = m.group(1) + '::' + ty
                short, trfull = tr
                for tkey in (ty, full):
                    if trfull and trfull != short: self.impls[(tkey, trfull, m.group(3))] = name
                    self.impls.setdefault((tkey, short, m.group(3)), name)
                self.impls.setdefault((ty, '*', m.group(3)), name)
        self.assoc_consts = {}
        for name in list(self.consts) + list(self.mir.inline_consts):
            m = re.match(r'(.*)::<impl at (.*?)>::(\w+)$', name)
            if m and m.group(2).startswith('src/'):
                try: _, ty = impl_self_of(m.group(2), self.files)
                except (KeyError, Unsupported, AttributeError): continue
                self.assoc_consts[m.group(1) + '::' + ty + '::' + m.group(3)] = name
        self.statics, self.stubs, self.resolve_cache = {}, {}, {}
        self.stub_patterns = []
        self.depth, self.stack = 0, []
        self.called = set()
        self.models = []
        self.hooks = {}
    # ---- enum / struct info
    def variant_index(self, path):
        path = re.sub(r'::<.*?>(?=::|$)', '', path) if '<' in path else path
        segs = path.split('::')
        if len(segs) < 2: return None
        en, v = segs[-2], segs[-1]
        full = '::'.join(segs[:-1])
        for key in (full, en):
            if key in self.enums and v in self.enums[key]: return self.enums[key].index(v)
        if en == 'Option': return {'None': 0, 'Some': 1}.get(v)
        if en == 'Result': return {'Ok': 0, 'Err': 1}.get(v)
        if en == 'Ordering': return {'Less': -1, 'Equal': 0, 'Greater': 1}.get(v)
        if en == 'Cow': return {'Borrowed': 0, 'Owned': 1}.get(v)
        if en == 'ControlFlow': return {'Continue': 0, 'Break': 1}.get(v)
        return None
    # ---- places
    def place(self, p, frame):
        k = p[0]
        if k == 'local': return Ref(frame[p[1]])
        if k == 'deref':
            inner = self.place(p[1], frame).get()
            if isinstance(inner, BoxPtr): return Ref(inner.cell)
            if not isinstance(inner, Ref): raise Unsupported('deref of non-pointer %r' % (inner,))
            return inner
        if k == 'field':
            base = self.place(p[1], frame)
            return Ref(base.box, base.path + (p[2],))
        if k == 'downcast': return self.place(p[1], frame)
        if k == 'index':
            base = self.place(p[1], frame); arr = base.get(); idx = frame[p[2]].v
            if isinstance(arr, SStr): raise Unsupported('index into str')
            if isinstance(idx, int):
                if not 0 <= idx < len(arr): raise Panic('index out of bounds')
                return Ref(base.box, base.path + (idx,))
            for i in range(len(arr)):
                if self.ctx.branch(idx == i): return Ref(base.box, base.path + (i,))
            raise Panic('index out of bounds')
        if k == 'cindex':
            base = self.place(p[1], frame); arr = base.get()
            i = len(arr) - p[2] if p[3] else p[2]
            return Ref(base.box, base.path + (i,))
        raise Unsupported('place kind ' + k)
    # ---- constants
    def const(self, c, frame):
        m = _RE_INTLIT.fullmatch(c)
        if m: return int(m.group(1))
        m = _RE_INTLIM.fullmatch(c)
        if m: return INT_RANGE[m.group(1)][0 if m.group(2) == 'MIN' else 1]
        if c == 'true': return True
        if c == 'false': return False
        if c == '()': return []
        if c == 'std::ops::RangeFull': return Adt(0, [])
        mf = _RE_FLOATLIT.fullmatch(c)
        if mf: return float(mf.group(1))
        if c.startswith('"'):
            m = re.fullmatch(r'"((?:[^"\\]|\\.)*)"', c, re.S)
            if m: return S(unescape_rust(m.group(1)))
        if c.startswith("'"):
            m = re.fullmatch(r"'((?:[^'\\]|\\.)+)'", c)
            if m: return ord(unescape_rust(m.group(1)))
        if c.startswith('b"'):
            m = re.fullmatch(r'b"((?:[^"\\]|\\.)*)"', c, re.S)
            if m: return list(unescape_bytes(m.group(1)))
        m = re.fullmatch(r'\{alloc\d+: &(.*)\}', c)
        if m: return self.static_ref(m.group(1))
        m = re.fullmatch(r'ZeroSized: (\{closure@.*\})', c)
        if m:
            cl = Closure(self.closures[m.group(1)], []); cl.ty = dict((frame or {}).get('__ty') or {}) if isinstance(frame, dict) else {}
            return cl
        m = re.fullmatch(r'ZeroSized: (.*)', c)
        if m: return FnItem(m.group(1))
        if c in self.mir.inline_consts: return self.operand(c_operand(self.mir.inline_consts[c]), frame)
        if c in self.consts: return self.run_const(c)
        c2 = re.sub(r'::<[A-Z]\w*(, [A-Z]\w*)*>', '', c)
        if c2 in self.consts: return self.run_const(c2)
        if c2 in self.mir.inline_consts: return self.operand(c_operand(self.mir.inline_consts[c2]), frame)
        mp = re.search(r'::(promoted\[\d+\])$', c)
        if mp:
            cand = frame['__fn'] + '::' + mp.group(1)
            if cand in self.consts: return self.run_const(cand)
        if c in self.assoc_consts:
            n = self.assoc_consts[c]
            return self.run_const(n) if n in self.consts else self.operand(c_operand(self.mir.inline_consts[n]), frame)
        if '::' in c and self.variant_index(c) is not None: return Adt(self.variant_index(c), [])
        if '::' in c: return FnItem(c)
        raise Unsupported('const ' + c)
    def static_ref(self, name):
        key = '&' + name
        if key not in self.statics:
            self.statics[key] = Ref(Box_(('static', name)))
        return self.statics[key]
    def run_const(self, name):
        return self.exec_fn(self.consts[name], [])
    def operand(self, o, frame):
        k = o[0]
        if k == 'copy': return self.clone(self.place(o[1], frame).get())
        if k == 'move': return self.place(o[1], frame).get()
        if k == 'const': return self.const(o[1], frame)
        if k == 'fnitem': return FnItem(o[1])
        raise Unsupported('operand kind')
    def clone(self, v):
        """`copy` of a Copy value: shallow for pointers, structural for aggregates"""
        if isinstance(v, Adt): return Adt(v.variant, [self.clone(x) for x in v.fields], v.ty)
        if isinstance(v, list): return [self.clone(x) for x in v]
        return v
    # ---- rvalues
    def rvalue(self, s, frame, lty):
        r = c_rvalue(s); k = r[0]
        if k == 'use': return self.operand(r[1], frame)
        if k == 'ref': return self.place(r[1], frame)
        if k == 'binop':
            a, b = self.operand(r[2], frame), self.operand(r[3], frame)
            return self.binop(r[1], a, b, lty)
        if k == 'unop':
            a = self.operand(r[2], frame)
            if r[1] == 'Not':
                if isinstance(a, bool): return not a
                if is_sym(a) and z3.is_bool(a): return z3.Not(a)
                if isinstance(a, int) and lty in INT_RANGE:
                    lo, hi = INT_RANGE[lty]
                    return hi - a if lo == 0 else -a - 1
                raise Unsupported('Not on symbolic int')
            return -a
        if k == 'cast':
            v = self.operand(r[1], frame); kind, ty = r[3], r[2]
            if kind == 'IntToInt' or (kind == 'Transmute' and ty in INT_RANGE and isinstance(v, (int, bool))) or (kind == 'Transmute' and ty in INT_RANGE and is_sym(v)):
                if ty == 'bool': return v
                if isinstance(v, Adt): v = v.variant
                return wrap_to(self, v, ty)
            if kind == 'IntToFloat':
                if isinstance(v, int): return float(v)
                raise Unsupported('symbolic IntToFloat')
            if kind == 'FloatToInt':
                if isinstance(v, float):
                    lo, hi = INT_RANGE[ty]
                    if v != v: return 0
                    return max(lo, min(hi, int(v)))
                raise Unsupported('symbolic FloatToInt')
            if kind == 'FloatToFloat': return v
            if isinstance(v, BoxPtr): return Ref(v.cell)
            if isinstance(v, SStr) and kind.startswith('Transmute'): return Ref(Box_(v))
            return v
        if k == 'tuple': return [self.operand(x, frame) for x in r[1]]
        if k == 'array': return [self.operand(x, frame) for x in r[1]]
        if k == 'repeat':
            v = self.operand(r[1], frame); n = r[2]
            m = _RE_INTLIT.fullmatch(n.replace('const ', ''))
            cnt = int(m.group(1)) if m else int(n)
            return [self.clone(v) for _ in range(cnt)]
        if k == 'discr':
            v = self.place(r[1], frame).get()
            if isinstance(v, Adt): return v.variant
            raise Unsupported('discriminant of %r' % (v,))
        if k == 'len': return len(self.place(r[1], frame).get())
        if k == 'len_of_ptr':
            v = deref_all(self.operand(r[1], frame))
            if isinstance(v, SStr): return self.call('core::str::<impl str>::len', [Ref(Box_(v))])
            return len(v)
        if k == 'closure':
            parts = list(r[2])
            for cand in self.smir_closure_ops.get(r[1], []):
                norm = lambda x: re.sub(r'^(copy|move) ', '', x)
                if [norm(x) for x in parts] == [norm(x) for x in cand[:len(parts)]] and len(cand) > len(parts):
                    parts = parts + [x if x.startswith(('move ', 'copy ')) else 'copy ' + x for x in cand[len(parts):]]
                    break
            caps = [self.operand(c_operand(x), frame) for x in parts]
            cl = Closure(self.closures[r[1]], caps); cl.ty = dict(frame.get('__ty') or {})   # a closure of a generic fn sees the fn's type arguments
            return cl
        if k == 'adt':
            fields = [self.operand(x, frame) for x in r[2]]
            vi = self.variant_index(r[1])
            return Adt(vi if vi is not None else 0, fields, r[1])
        if k == 'variant':
            vi = self.variant_index(r[1])
            if vi is None:
                if not r[2]: return self.operand(c_operand(s), frame)
                if re.match(r'(quick_xml|zip|std::io)::', r[1]):
                    # constructor of an enum of an external crate that is only passed on to (modelled) code of that crate
                    return Adt(r[1].rsplit('::', 1)[1], [self.operand(x, frame) for x in r[2]], r[1])
                raise Unsupported('variant ' + r[1])
            return Adt(vi, [self.operand(x, frame) for x in r[2]], r[1])
        raise Unsupported('rvalue ' + s)
    def binop(self, op, a, b, lty):
        if isinstance(a, Adt): a = a.variant
        if isinstance(b, Adt): b = b.variant
        if type(a).__name__ == 'F64Text' or type(b).__name__ == 'F64Text':
            # an f64 known by its decimal text: only the exact identities x / 1.0 and x * 1.0 are evaluated
            if type(a).__name__ == 'F64Text' and isinstance(b, float) and b == 1.0 and op in ('Div', 'Mul'): return a
            if type(b).__name__ == 'F64Text' and isinstance(a, float) and a == 1.0 and op == 'Mul': return b
            raise Unsupported('f64 arithmetic %s on a number known only by its decimal text' % op)
        if isinstance(a, float) or isinstance(b, float):
            return FLOAT_BINOPS[op](a, b)
        if op in CMP:
            if isinstance(a, bool) and is_sym(b): a = z3.BoolVal(a)
            if isinstance(b, bool) and is_sym(a): b = z3.BoolVal(b)
            try: return CMP[op](a, b)
            except z3.Z3Exception as e: raise Unsupported('comparison %s of %r and %r: %s' % (op, a, b, e))
        if op in ('Add', 'AddUnchecked'): return a + b
        if op in ('Sub', 'SubUnchecked'): return a - b
        if op in ('Mul', 'MulUnchecked'): return a * b
        if op in ('AddWithOverflow', 'SubWithOverflow', 'MulWithOverflow'):
            r = a + b if op[0] == 'A' else (a - b if op[0] == 'S' else a * b)
            ty = lty[1:].split(',')[0].strip() if lty else 'u32'
            lo, hi = INT_RANGE[ty]
            ov = (r < lo or r > hi) if isinstance(r, int) else z3.Or(r < lo, r > hi)
            return [r, ov]
        if op == 'Div':
            if isinstance(b, int) and b == 0: raise Panic('attempt to divide by zero')
            if (lty or 'u')[0] == 'i': return sdiv(a, b)
            if isinstance(a, int) and isinstance(b, int): return a // b
            if isinstance(b, int) and b > 0: return self.ctx.divmod(a, b)[0]
            return a / b
        if op == 'Rem':
            if isinstance(b, int) and b == 0: raise Panic('attempt to calculate the remainder with a divisor of zero')
            if (lty or 'u')[0] == 'i': return srem(a, b)
            if is_sym(a) and isinstance(b, int) and b > 0: return self.ctx.divmod(a, b)[1]
            return a % b
        if isinstance(a, bool) or isinstance(b, bool) or (is_sym(a) and z3.is_bool(a)) or (is_sym(b) and z3.is_bool(b)):
            if isinstance(a, bool) and isinstance(b, bool):
                return {'BitAnd': a and b, 'BitOr': a or b, 'BitXor': a != b}[op]
            za = z3.BoolVal(a) if isinstance(a, bool) else a; zb = z3.BoolVal(b) if isinstance(b, bool) else b
            return {'BitAnd': z3.And, 'BitOr': z3.Or, 'BitXor': z3.Xor}[op](za, zb)
        if isinstance(a, int) and isinstance(b, int):
            if op == 'BitAnd': return a & b
            if op == 'BitOr': return a | b
            if op == 'BitXor': return a ^ b
            if op in ('Shl', 'ShlUnchecked'):
                r = a << b
                return wrap_to(self, r, lty) if lty in INT_RANGE else r
            if op in ('Shr', 'ShrUnchecked'): return a >> b
        if op in ('Shl', 'ShlUnchecked') and isinstance(b, int):
            return wrap_to(self, a * (2 ** b), lty) if lty in INT_RANGE else a * (2 ** b)
        if op in ('Shr', 'ShrUnchecked') and isinstance(b, int): return a / (2 ** b)
        if op == 'BitAnd' and isinstance(b, int) and (b + 1) & b == 0: return a % (b + 1)
        if op == 'Cmp':
            return self.ordering(a, b)
        raise Unsupported('binop %s on symbolic' % op)
    def ordering(self, a, b):
        if self.ctx.B(a < b): return Adt(-1, [])
        if self.ctx.B(a == b): return Adt(0, [])
        return Adt(1, [])
    # ---- execution
    def exec_fn(self, f, args, tysubst=None):
        frame = {'__ty': tysubst or {}, '__fn': f.name}
        for l in f.local_types: frame[l] = Box_()
        for p, a in zip(f.params, args): frame[p].v = a
        blocks = f.blocks; code = f.code; ctx = self.ctx
        self.called.add(f.name)
        bb = 0
        while True:
            blk = code.get(bb)
            if blk is None:
                blk = code[bb] = [c_stmt(st) for st in blocks[bb]]
            nxt = None
            for cs in blk:
                ctx.steps += 1
                if ctx.steps > self.STEP_BUDGET: raise Budget('step budget in ' + f.name)
                k = cs[0]
                try:
                    if k == 'assign':
                        dst = self.place(cs[1], frame)
                        lty = f.local_types.get(cs[3])
                        dst.set(self.rvalue(cs[2], frame, lty))
                    elif k == 'nop': pass
                    elif k == 'goto': nxt = cs[1]; break
                    elif k == 'call':
                        callee = cs[2]
                        ts = frame['__ty']
                        if ts: callee = subst_ty(callee, ts)
                        args2 = [self.operand(a, frame) for a in cs[3]]
                        r = self.call(callee, args2)
                        if cs[4] is None: raise Panic('diverging call returned: ' + callee)
                        if cs[1] is not None: self.place(cs[1], frame).set(r)
                        nxt = cs[4]; break
                    elif k == 'switch':
                        v = self.operand(cs[1], frame)
                        if isinstance(v, Adt): v = v.variant
                        nxt = cs[3]
                        for kv, t in cs[2]:
                            if isinstance(v, bool): c = (int(v) == kv)
                            elif isinstance(v, int): c = (v == kv)
                            elif z3.is_bool(v): c = v if kv == 1 else z3.Not(v)
                            else: c = (v == kv)
                            if (c if isinstance(c, bool) else ctx.branch(c)): nxt = t; break
                        if nxt is None: raise Panic('switchInt: no arm (unreachable)')
                        break
                    elif k == 'assert':
                        v = self.operand(cs[2], frame)
                        if cs[1]: v = (not v) if isinstance(v, bool) else z3.Not(v)
                        if (v if isinstance(v, bool) else ctx.branch(v)): nxt = cs[4]; break
                        raise Panic(cs[3])
                    elif k == 'drop':
                        try: v = self.place(cs[1], frame).get()
                        except Exception: v = None
                        if hasattr(v, 'drop_hook'): v.drop_hook(self)
                        nxt = cs[2]; break
                    elif k == 'return':
                        return frame['_0'].v
                    elif k == 'unreachable':
                        raise Panic('unreachable reached')
                except (Unsupported, Panic, AssertionError, AttributeError, TypeError, IndexError, KeyError, ValueError) as e:
                    if not getattr(e, '_where', None):
                        e._where = '%s bb%d: %s' % (f.name, bb, str(cs)[:300])
                    raise
            if nxt is None: raise Unsupported('fell off block bb%d of %s' % (bb, f.name))
            bb = nxt
    def call(self, callee, args):
        self.depth += 1; self.stack.append(callee)
        try:
            if self.depth > 120: raise Unsupported('call depth: ' + ' <- '.join(x[:80] for x in self.stack[-6:]))
            return self.call2(callee, args)
        finally:
            self.depth -= 1; self.stack.pop()
    def call2(self, callee, args):
        if callee in self.stubs: return self.stubs[callee](self, *args)
        for pat, fn in self.stub_patterns:
            if pat.fullmatch(callee): return fn(self, callee, *args)
        tgt = self.resolve_cache.get(callee)
        if tgt is None:
            tgt = self.resolve(callee)
            self.resolve_cache[callee] = tgt
        kind = tgt[0]
        if kind == 'mir': return self.exec_fn(tgt[1], args, tgt[2])
        if kind == 'model': return tgt[1](self, *args)
        if kind == 'modelc': return tgt[1](self, callee, *args)
        raise Unsupported('call ' + callee)
    def resolve(self, callee):
        from . import models
        if callee in self.fns: return ('mir', self.fns[callee], None)
        r = models.resolve_special(self, callee)
        if r is not None: return r
        gt = generic_tail(callee)
        base = callee[:gt[0]] if gt else callee
        tys = [t.strip() for t in split_top(gt[1], ',') if not t.strip().startswith("'")] if gt else None
        if base in self.fns: return ('mir', self.fns[base], self.tysub(self.fns[base], tys))
        r = models.lookup(self, callee, base)
        if r is not None: return r
        mf0 = re.fullmatch(r'<([\w:]+) as std::convert::From<(.*)>>::from', callee)
        if mf0:
            for n, f in self.fns.items():
                if n.endswith('>::from') and '<impl at ' in n and f.ret == mf0.group(1) and f.param_types and f.param_types[0] == mf0.group(2):
                    return ('mir', f, None)
        m = re.fullmatch(r'<([\w:]+)(?:<(.*)>)? as ([\w:]+)(?:<(.*)>)?>::(\w+)(?:::<.*>)?', callee)
        if m:
            selfargs = [t.strip() for t in split_top(m.group(2), ',')] if m.group(2) else []
            ts = dict(zip(['T', 'U', 'V'], selfargs))
            trshort = m.group(3).split('::')[-1]
            trfull = trshort + ('<%s>' % re.sub(r'\s+', '', m.group(4)) if m.group(4) else '')
            for tkey in (m.group(1), m.group(1).split('::')[-1]):
                for trk in (trfull, trshort):
                    if (tkey, trk, m.group(5)) in self.impls:
                        return ('mir', self.fns[self.impls[(tkey, trk, m.group(5))]], ts)
        mg = re.fullmatch(r'([\w:]+)::<(.*?)>::(\w+)(?:::<(.*)>)?', callee)
        if mg:
            for tkey in (mg.group(1), mg.group(1).split('::')[-1]):
                if (tkey, None, mg.group(3)) in self.impls:
                    fn = self.fns[self.impls[(tkey, None, mg.group(3))]]
                    ts = dict(zip(['T', 'U', 'V'], [t.strip() for t in split_top(mg.group(2), ',')]))
                    if mg.group(4):
                        # generics of the method itself: the capital-letter names of its signature that are not the impl's
                        names = []
                        for t in fn.param_types + [fn.ret]:
                            for n in re.findall(r'(?<![\w:])([A-Z])(?![\w:])', t):
                                if n not in names and n not in ts: names.append(n)
                        ts.update(zip(names, [t.strip() for t in split_top(mg.group(4), ',')]))
                    return ('mir', fn, ts)
        m = re.fullmatch(r'([\w:]+)::(\w+)(?:::<.*>)?', callee)
        if m:
            for tkey in (m.group(1), m.group(1).split('::')[-1]):
                if (tkey, None, m.group(2)) in self.impls:
                    fn = self.fns[self.impls[(tkey, None, m.group(2))]]
                    return ('mir', fn, self.tysub(fn, tys))
        mf = re.fullmatch(r'<([\w:]+) as std::convert::From<(.*)>>::from', callee)
        if mf:
            # several `impl From<X> for T`: pick the body whose parameter type is X
            for n, f in self.fns.items():
                if n.endswith('>::from') and '<impl at ' in n and f.ret == mf.group(1) and f.param_types and f.param_types[0] == mf.group(2):
                    return ('mir', f, None)
        mi = re.fullmatch(r'<(.*) as std::convert::Into<(.*)>>::into', callee)
        if mi:
            key = (mi.group(2).split('::')[-1], 'From<%s>' % re.sub(r'\s+', '', mi.group(1)), 'from')
            if key in self.impls: return ('mir', self.fns[self.impls[key]], None)
        raise Unsupported('call ' + callee)
    def tysub(self, f, tys):
        if not tys: return None
        names = []
        for t in f.param_types + [f.ret]:
            for n in re.findall(r'(?<![\w:])([A-Z])(?![\w:])', t):
                if n not in names: names.append(n)
        return dict(zip(names, tys))
    def call_closure(self, clo, *args):
        if isinstance(clo, FnItem): return self.call(clo.name, list(args))
        if isinstance(clo, Ref): clo = deref_all(clo)
        f = self.fns[clo.fn]
        byref = f.param_types[0].startswith('&')
        return self.exec_fn(f, [Ref(Box_(clo)) if byref else clo] + list(args), getattr(clo, 'ty', None) or None)
    def lazy_static(self, name):
        """value behind a lazy_static!: bodies of one module share a name, so initialisers are bound to their static
        through the `&NAME` parameter of the matching `deref` body (same file order)"""
        if name not in self.statics:
            if not hasattr(self, '_lazy_index'):
                idx = {}
                derefs, inits = {}, {}
                for n, f in self.fns.items():
                    m = re.match(r'(.*)::<impl at [^>]*lazy_static[^>]*>::deref(::__static_ref_initialize)?$', n)
                    if not m: continue
                    lst = [f] + self.mir.dups.get(n, [])[1:]
                    (inits if m.group(2) else derefs).setdefault(m.group(1), []).extend(lst)
                for pre, ds in derefs.items():
                    for k, d in enumerate(ds):
                        if k < len(inits.get(pre, [])) and d.param_types: idx[d.param_types[0]] = inits[pre][k]
                self._lazy_index = idx
            f = self._lazy_index.get('&' + name)
            if f is None: raise Unsupported('lazy static ' + name)
            self.statics[name] = Ref(Box_(self.exec_fn(f, [])))
        return self.statics[name]

_RE_INTLIT = re.compile(r'(-?\d+)_(?:u8|u16|u32|u64|u128|usize|i8|i16|i32|i64|i128|isize)')
_RE_INTLIM = re.compile(r'(?:core::num::<impl )?(u8|u16|u32|u64|usize|i8|i16|i32|i64|isize)>?::(MIN|MAX)')
_RE_FLOATLIT = re.compile(r'(-?(?:[0-9.]+(?:[eE][-+]?\d+)?|inf|NaN))f(?:64|32)')
CMP = {'Ge': lambda a, b: a >= b, 'Gt': lambda a, b: a > b, 'Le': lambda a, b: a <= b, 'Lt': lambda a, b: a < b,
       'Eq': lambda a, b: a == b, 'Ne': lambda a, b: a != b}
FLOAT_BINOPS = dict(CMP)
FLOAT_BINOPS.update({'Add': lambda a, b: a + b, 'Sub': lambda a, b: a - b, 'Mul': lambda a, b: a * b,
                     'Div': lambda a, b: a / b if b != 0 else (float('inf') if a > 0 else float('-inf') if a < 0 else float('nan')),
                     'Rem': lambda a, b: __import__('math').fmod(a, b)})

def subst_ty(callee, ts):
    for gk, gv in ts.items():
        callee = re.sub(r'(?<![\w:])' + gk + r'(?![\w])', gv.replace('\\', '\\\\'), callee)
    return callee

def unescape_rust(s):
    out, i = [], 0
    while i < len(s):
        c = s[i]
        if c != '\\': out.append(c); i += 1; continue
        n = s[i+1]
        if n == 'n': out.append('\n'); i += 2
        elif n == 'r': out.append('\r'); i += 2
        elif n == 't': out.append('\t'); i += 2
        elif n == '0': out.append('\0'); i += 2
        elif n in '\\\'"': out.append(n); i += 2
        elif n == 'x': out.append(chr(int(s[i+2:i+4], 16))); i += 4
        elif n == 'u':
            j = s.index('}', i); out.append(chr(int(s[i+3:j], 16))); i = j + 1
        elif n == '\n':
            i += 2
            while i < len(s) and s[i] in ' \t\n': i += 1
        else: out.append(n); i += 2
    return ''.join(out)
def unescape_bytes(s):
    out, i = bytearray(), 0
    while i < len(s):
        c = s[i]
        if c != '\\': out += c.encode('utf-8'); i += 1; continue
        n = s[i+1]
        if n == 'n': out.append(10); i += 2
        elif n == 'r': out.append(13); i += 2
        elif n == 't': out.append(9); i += 2
        elif n == '0': out.append(0); i += 2
        elif n in '\\\'"': out.append(ord(n)); i += 2
        elif n == 'x': out.append(int(s[i+2:i+4], 16)); i += 4
        else: out.append(ord(n)); i += 2
    return bytes(out)
