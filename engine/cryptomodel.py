"""Term algebra for the cryptographic primitives (third-party crates, trusted): SHA-512, HMAC, AES-256-CBC, base64 and the OS
random source are *free function symbols*.  A digest/ciphertext is a run of opaque bytes that remember the term they come from,
so the crate's own slicing / concatenation / truncation code runs unchanged on them and the data flow can be compared with the
MS-OFFCRYPTO / ECMA-376 formulas as terms."""
import re
import z3
from .core import *
from .models import B

class Term:
    _cnt = 0
    def __init__(self, fn, args, n):
        Term._cnt += 1
        self.fn, self.args, self.n = fn, args, n; self.id = Term._cnt
        self.bytes = [TermByte(self, i) for i in range(n)]
class TermByte:
    __slots__ = ('term', 'i')
    def __init__(self, term, i): self.term, self.i = term, i
    def __repr__(self): return '%s#%d[%d]' % (self.term.fn, self.term.id, self.i)

def chunks(bs):
    """normal form of a byte list: tuple of ('B', tuple of ints/z3 terms) and ('T', term, lo, hi)"""
    out, i = [], 0
    bs = list(bs)
    while i < len(bs):
        b = bs[i]
        if isinstance(b, TermByte):
            j = i
            while j + 1 < len(bs) and isinstance(bs[j+1], TermByte) and bs[j+1].term is b.term and bs[j+1].i == bs[j].i + 1: j += 1
            out.append(('T', b.term, b.i, bs[j].i + 1)); i = j + 1
        else:
            j = i
            while j + 1 < len(bs) and not isinstance(bs[j+1], TermByte): j += 1
            out.append(('B', tuple(bs[i:j+1]))); i = j + 1
    return tuple(out)
def mk(fn, *args, n):
    return Term(fn, tuple(chunks(a) if isinstance(a, (list, tuple)) and not (a and isinstance(a[0], tuple) and a[0] and a[0][0] in ('B', 'T')) else a for a in args), n).bytes

def eq_chunks(ctx, a, b):
    """structural equality of two normal forms -> python bool or z3 condition (symbolic bytes are compared by the solver).
    Runs of term bytes are compared as runs (same offsets, equal terms), so the cost is linear in the number of chunks."""
    sa, sb = segments(a), segments(b)
    if sum(x[-1] for x in sa) != sum(x[-1] for x in sb): return False
    conds = []; i = j = 0; oa = ob = 0          # offsets consumed inside the current segments
    while i < len(sa) and j < len(sb):
        x, y = sa[i], sb[j]
        if x[0] != y[0]: return False
        if x[0] == 'B':
            c = (x[1] == y[1])
            if isinstance(c, bool):
                if not c: return False
            else: conds.append(c)
            i += 1; j += 1; continue
        (_, tx, lx, nx), (_, ty, ly, ny) = x, y
        if lx + oa != ly + ob: return False
        r = eq_terms(ctx, tx, ty)
        if r is False: return False
        if r is not True: conds.append(r)
        L = min(nx - oa, ny - ob); oa += L; ob += L
        if oa == nx: i += 1; oa = 0
        if ob == ny: j += 1; ob = 0
    if i != len(sa) or j != len(sb): return False
    return z3.And(*conds) if conds else True
def segments(ch):
    out = []
    for c in ch:
        if c[0] == 'B': out.extend(('B', b, 1) for b in c[1])
        else: out.append(('T', c[1], c[2], c[3] - c[2]))
    return out
def flatten(ch):
    out = []
    for c in ch:
        if c[0] == 'B': out.extend(c[1])
        else: out.extend((c[1], i) for i in range(c[2], c[3]))
    return out
def eq_terms(ctx, a, b):
    if a is b: return True
    if a.fn != b.fn or a.n != b.n or (a.args is None) != (b.args is None): return False
    if a.args is None: return False            # distinct atoms
    if len(a.args) != len(b.args): return False
    memo = ctx.__dict__.setdefault('_term_eq', {}) if ctx is not None else {}
    key = (a.id, b.id)
    if key in memo: return memo[key]
    conds = []; res = None
    for x, y in zip(a.args, b.args):
        r = eq_chunks(ctx, x, y) if isinstance(x, tuple) else (x == y)
        if r is False: res = False; break
        if r is not True: conds.append(r)
    if res is None: res = z3.And(*conds) if conds else True
    memo[key] = res
    return res

def show(ch, depth=0):
    r = []
    for c in ch:
        if c[0] == 'T':
            t = c[1]
            inner = t.fn + ('#%d' % t.id if t.args is None else '(' + ', '.join(show(a, depth + 1) if isinstance(a, tuple) else str(a) for a in t.args) + ')') if depth < 4 else t.fn + '(..)'
            r.append(inner if (c[2], c[3]) == (0, t.n) else inner + '[%d..%d]' % (c[2], c[3]))
        else:
            bs = c[1]
            r.append('x' + ''.join('%02x' % b if isinstance(b, int) else '??' for b in bs) if len(bs) <= 12 else '<%d bytes>' % len(bs))
    return ' || '.join(r)

class ShaObj:
    def __init__(self): self.buf = []
class HmacObj:
    def __init__(self, key): self.key, self.buf = list(key), []
class AesObj:
    def __init__(self, key, iv): self.key, self.iv = list(key), list(iv)
class B64Text:
    """base64 text of a byte string, as one opaque character run"""
    def __init__(self, ch): self.ch = ch
class CfbObj:
    def __init__(self, path): self.path, self.streams = path, {}
class CfbStream:
    def __init__(self, comp, name): self.comp, self.name = comp, name; comp.streams[name] = []
class World:
    def __init__(self): self.randoms, self.cfb, self.rand_fail = [], [], False

def install(it):
    ms = []
    def m(pat, fn): ms.append((re.compile(pat), fn, False))
    def getrandom(it_, buf):
        b = deref_all(buf); t = Term('RANDOM', None, len(b)); it_.world.randoms.append(t)
        for i in range(len(b)): b[i] = t.bytes[i]
        return OK([])
    m(r'getrandom::getrandom', getrandom)
    m(r'<.*Sha512VarCore.* as (md5|sha2)::Digest>::new', lambda it_: ShaObj())
    m(r'<.*Sha512VarCore.* as (md5|sha2)::Digest>::update::<.*>', lambda it_, h, data: (deref_all(h).buf.extend(list(deref_all(data))), [])[1])
    m(r'<.*Sha512VarCore.* as (md5|sha2)::Digest>::finalize', lambda it_, h: mk('SHA512', deref_all(h).buf, n=64))
    m(r'<(md5|sha2)::digest::generic_array::GenericArray<.*> as std::ops::Deref(Mut)?>::deref(_mut)?', lambda it_, g: g)
    m(r'<(md5|sha2)::digest::generic_array::GenericArray<.*> as std::ops::Index<std::ops::RangeFull>>::index', lambda it_, g, r: g)
    m(r'<.*Hmac.* as (hmac|md5|sha2)::(digest::)?Mac>::new_from_slice', lambda it_, key: OK(HmacObj(deref_all(key))))
    m(r'<.*Hmac.* as (hmac|md5|sha2)::(digest::)?Mac>::update', lambda it_, h, data: (deref_all(h).buf.extend(list(deref_all(data))), [])[1])
    m(r'<.*Hmac.* as (hmac|md5|sha2)::(digest::)?Mac>::finalize', lambda it_, h: mk('HMAC_SHA512', h.key if not isinstance(h, Ref) else deref_all(h).key, (h if not isinstance(h, Ref) else deref_all(h)).buf, n=64))
    m(r'(hmac|md5|sha2)::digest::CtOutput::<.*>::into_bytes', lambda it_, o: o)
    m(r'<cbc::Encryptor<aes::Aes256> as .*KeyIvInit>::new_from_slices', lambda it_, key, iv: OK(AesObj(deref_all(key), deref_all(iv))) if len(deref_all(key)) == 32 and len(deref_all(iv)) == 16 else ERR('InvalidLength'))
    def encrypt_padded(it_, enc, buf, n):
        if n % 16: return ERR('PadError')
        b = deref_all(buf)
        return OK(Ref(Box_(mk('AES256CBC', enc.key, enc.iv, list(b[:n]), n=n))))
    m(r'<cbc::Encryptor<aes::Aes256> as .*BlockEncryptMut>::encrypt_padded_mut::<.*NoPadding>', encrypt_padded)
    m(r'<base64::engine::GeneralPurpose as base64::Engine>::encode::<.*>', lambda it_, e, data: SStr([B64Text(chunks(list(deref_all(data))))]))
    def write_u32(it_, buf, v):
        b = deref_all(buf)
        if len(b) < 4: raise Panic('byteorder: buffer too small')
        for k in range(4):
            if isinstance(v, int): b[k] = (v >> (8 * k)) & 0xFF
            else:
                q, r = it_.ctx.divmod(v, 256 ** k) if k else (v, None)
                b[k] = it_.ctx.divmod(q, 256)[1]
        return []
    m(r'<byteorder::LittleEndian as byteorder::ByteOrder>::write_u32', write_u32)
    def write_u16(it_, buf, v):
        b = deref_all(buf)
        if len(b) < 2: raise Panic('byteorder: buffer too small')
        if isinstance(v, int): b[0], b[1] = v & 0xFF, v >> 8
        else:
            q, r = it_.ctx.divmod(v, 256); b[0], b[1] = r, q
        return []
    m(r'<byteorder::LittleEndian as byteorder::ByteOrder>::write_u16', write_u16)
    m(r'core::num::<impl u16>::to_le_bytes', lambda it_, v: [v & 0xFF, v >> 8] if isinstance(v, int) else [it_.ctx.divmod(v, 256)[1], it_.ctx.divmod(v, 256)[0]])
    m(r'core::num::<impl u32>::to_le_bytes', lambda it_, v: [(v >> (8 * k)) & 0xFF for k in range(4)] if isinstance(v, int) else raise_unsupported())
    def cfb_create(it_, p):
        fs = getattr(it_, 'fs', None)
        if fs is not None:
            if not fs.meta_ok('create'): return ERR('io error')
            fs.files[pstr(p)] = ('new', 0); fs.snap(fs.dest)
        return OK(_cfb_create(it_, p))
    def cfb_write_all(it_, s, data):
        st = deref_all(s); data = list(deref_all(data))
        fs = getattr(it_, 'fs', None)
        if fs is not None:
            n = len(data)
            while not (isinstance(n, int) and n == 0):
                k = fs.file_write(st.comp.path, n)
                if k is None: return ERR('io error')
                n = n - k
                if is_sym(n):
                    n = z3.simplify(n)
                    if z3.is_int_value(n): n = n.as_long()
                    elif it_.ctx.branch(n == 0): break
        st.comp.streams[st.name].extend(data); return OK([])
    m(r'cfb::create::<.*>', cfb_create)
    m(r'cfb::CompoundFile::<.*>::create_stream::<.*>', lambda it_, c, name: OK(CfbStream(deref_all(c), pstr(name))))
    m(r'<cfb::Stream<.*> as std::io::Write>::write_all', cfb_write_all)
    it.models = ms + list(it.models)
def raise_unsupported(): raise Unsupported('symbolic to_le_bytes')
def _cfb_create(it, p):
    c = CfbObj(pstr(p)); it.world.cfb.append(c); return c

# ---------------------------------------------------------------- the standard, as terms (oracle side)
def H(*parts):
    buf = []
    for p in parts: buf += list(p)
    return mk('SHA512', buf, n=64)
def LE32(i): return [(i >> (8 * k)) & 0xFF for k in range(4)]
def utf16le(ctx, cps):
    out = []
    for c in cps:
        if isinstance(c, int): us = [c] if c < 0x10000 else [0xD800 + ((c - 0x10000) >> 10), 0xDC00 + ((c - 0x10000) & 0x3FF)]
        elif ctx.branch(c < 0x10000): us = [c]
        else:
            q, r = ctx.divmod(c - 0x10000, 1024); us = [0xD800 + q, 0xDC00 + r]
        for u in us:
            if isinstance(u, int): out += [u & 0xFF, u >> 8]
            else:
                q, r = ctx.divmod(u, 256); out += [r, q]
    return out
def ecma_password_hash(ctx, salt, cps, spin):
    """ECMA-376 Part 1 18.2.29 / 18.3.1.85: H0 = H(salt || pw), Hi = H(H(i-1) || LE32(i-1))"""
    h = H(salt, utf16le(ctx, cps))
    for i in range(spin): h = H(h, LE32(i))
    return h
def agile_key(ctx, salt, cps, spin, block_key, key_bytes=32):
    """MS-OFFCRYPTO 2.3.4.11: H0 = H(salt || pw), Hi = H(LE32(i) || H(i-1)), Hfinal = H(Hn || blockKey), truncated"""
    h = H(salt, utf16le(ctx, cps))
    for i in range(spin): h = H(LE32(i), h)
    return H(h, block_key)[:key_bytes]


# ---------------------------------------------------------------- non-cryptographic digests used as interning keys (md5 hex text, ahash)
class HexText:
    """the lower-hex text of a digest, one opaque character run inside a string"""
    def __init__(self, ch): self.ch = ch
    def __eq__(self, o): return eq_chunks(None, self.ch, o.ch) if isinstance(o, HexText) else False
    def __ne__(self, o):
        r = self.__eq__(o)
        return (not r) if isinstance(r, bool) else z3.Not(r)
    def __hash__(self): return 0
    def opaque_bytes(self):
        if not hasattr(self, 'term'): self.term = Term('HEX', (self.ch,), 32)
        return list(self.term.bytes)
class HashKey:
    """a 64-bit hash value modelled as injective: equal only for equal input"""
    def __init__(self, ch): self.ch = ch
    def __eq__(self, o): return eq_chunks(None, self.ch, o.ch) if isinstance(o, HashKey) else False
    def __ne__(self, o):
        r = self.__eq__(o)
        return (not r) if isinstance(r, bool) else z3.Not(r)
    def __hash__(self): return 0
class AHash:
    def __init__(self): self.buf = []
def install_digests(it):
    from .models import str_bytes
    ms = []
    def m(pat, fn): ms.append((re.compile(pat), fn, False))
    def digest(it_, data):
        d = deref_all(data)
        return mk('MD5', str_bytes(it_, d) if isinstance(d, SStr) else list(d), n=16)
    m(r'<md5::digest::core_api::CoreWrapper<md5::Md5Core> as md5::Digest>::digest::<.*>', digest)
    m(r"core::fmt::rt::Argument::<'_>::new_lower_hex::<md5::digest::generic_array::GenericArray<.*>>", lambda it_, g: [HexText(chunks(list(deref_all(g))))])
    m(r'<.*ahash::AHasher as std::default::Default>::default', lambda it_: AHash())
    def ah_write(it_, h, data):
        # every write is one message of its own: the boundary marker keeps write("ab") apart from write("a"); write("b")
        b = deref_all(h).buf
        if b: b.extend(mk('AHASH_WRITE_BOUNDARY', [], n=1))
        b.extend(list(deref_all(data))); return []
    m(r'<.*ahash::AHasher as std::hash::Hasher>::write', ah_write)
    m(r'<.*ahash::AHasher as std::hash::Hasher>::finish', lambda it_, h: HashKey(chunks(deref_all(h).buf)))
    it.models = ms + list(it.models)
