"""Contract model of the file system and of std::io writers, with symbolic faults.

The package that is being saved is one byte stream of concrete length N; every buffer that travels through the writers is a
run of that stream, so a buffer is represented by its length (`Bytes`) and a file by (generation tag, length).
Faults: the disk accepts `fs_write_limit` bytes in total (symbolic; disk full / RLIMIT_FSIZE style: a write takes what still fits
and fails when nothing fits); create / rename / remove fail independently (one symbolic boolean each).
`BufWriter` follows std: capacity (default 8192), small writes buffered, large writes direct, flush on overflow, on flush() and on
drop -- where the error is discarded (documented std behaviour).  A caller-supplied sink (`VerifSink`) accepts per write() call
everything, nothing (Ok(0)) or half of the buffer, or fails from a symbolic call index on."""
import re
import z3
from .core import *

class Bytes:
    """a run of the package stream, only its length matters"""
    def __init__(self, n): self.n = n
    def __len__(self): return self.n
    def __getitem__(self, i): return 0
class FS:
    def __init__(self, it, ctx, max_limit):
        self.it, self.files, self.log = it, {}, []
        self.limit = ctx.sym_int('fs_write_limit', 0, max_limit)
        self.written = 0; self.meta = 0; self.snapshots = []; self.pos = {}
    def snap(self, dest):
        f = self.files.get(dest)
        self.snapshots.append(None if f is None else (f[0], f[1]))
    def meta_ok(self, what):
        self.meta += 1
        ok = self.it.ctx.branch(self.it.ctx.sym_bool('fs_ok_%d_%s' % (self.meta, what)))
        self.log.append((what, ok)); return ok
    def file_write(self, path, n):
        """append up to n bytes -> accepted count (int or z3 term > 0) or None for an error"""
        if isinstance(n, int) and n == 0: return 0
        room = self.limit - self.written
        if self.it.ctx.branch(room >= n): k = n
        elif self.it.ctx.branch(room <= 0): self.log.append(('write %s -> ENOSPC' % n, False)); return None
        else: k = room
        tag, length = self.files[path]
        if tag == 'new': self.files[path] = (tag, length + k)
        else:
            # a file opened WITHOUT truncation: the new bytes overwrite the old content from offset 0; whatever lies behind them stays
            pos = self.pos.get(path, 0) + k; self.pos[path] = pos
            if self.it.ctx.branch(pos >= length): self.files[path] = ('new', pos)
        self.written = self.written + k
        self.log.append(('write %s -> %s' % (n, k), True))
        return k
class FileObj:
    def __init__(self, path): self.path = path
class IoError:
    def __init__(self, kind): self.kind = kind
    def __repr__(self): return 'io::Error(%s)' % self.kind
def io_err(kind): return ERR(IoError(kind))
def sub(a, b):
    r = a - b
    return z3.simplify(r).as_long() if is_sym(r) and z3.is_int_value(z3.simplify(r)) else r

class BufW:
    def __init__(self, f, cap=8192): self.f, self.buf, self.cap = f, 0, cap
    def drain(self, it, n):
        """write n bytes to the file, looping over partial writes like std does; -> remaining count or None on error"""
        while True:
            if isinstance(n, int) and n == 0: return 0
            k = it.fs.file_write(self.f.path, n)
            if k is None: return None
            n = sub(n, k)
            if is_sym(n):
                if it.ctx.branch(n == 0): return 0
    def flush_buf(self, it):
        if isinstance(self.buf, int) and self.buf == 0: return OK([])
        r = self.drain(it, self.buf)
        if r is None: return io_err('ENOSPC')
        self.buf = 0; return OK([])
    def write_all(self, it, data):
        n = len(data)
        if self.buf + n > self.cap:
            r = self.flush_buf(it)
            if r.variant == 1: return r
        if n >= self.cap:
            if self.drain(it, n) is None: return io_err('ENOSPC')
            return OK([])
        self.buf += n
        return OK([])
    def write(self, it, data):
        """std's BufWriter::write: one call; a buffer of at least the capacity goes to the file in ONE write(), which may be partial"""
        n = len(data)
        if self.buf + n > self.cap:
            r = self.flush_buf(it)
            if r.variant == 1: return r
        if n >= self.cap:
            k = it.fs.file_write(self.f.path, n)
            return io_err('ENOSPC') if k is None else OK(k)
        self.buf += n
        return OK(n)
    def drop_hook(self, it):
        self.flush_buf(it)      # error discarded, as documented for BufWriter's Drop

class Sink:
    def __init__(self, it, ctx, allow_zero=True, max_calls=8):
        self.it, self.taken, self.calls, self.allow_zero = it, 0, 0, allow_zero
        self.script = []
        self.fail_at = ctx.sym_int('sink_fail_at', 0, max_calls)
    def write(self, buf):
        n = len(buf); i = self.calls; self.calls += 1
        if not self.it.ctx.branch(self.fail_at > i): self.script.append('E'); return io_err('EIO')
        if n == 0: self.script.append('A'); return OK(0)
        k = self.it.ctx.sym_int('sink_accept_%d' % i, 0 if self.allow_zero else 1, n)
        if self.it.ctx.branch(k == n): m = n
        elif self.it.ctx.branch(k == 0): m = 0
        else:
            m = max(1, n // 2); self.it.ctx.assume(k == m)
        self.taken += m; self.script.append('A' if m == n else ('Z' if m == 0 else 'H'))
        return OK(m)
    def write_all(self, buf):
        """std's default write_all over write()"""
        n = len(buf)
        while n:
            r = self.write([0] * n)
            if r.variant == 1: return r
            if r.fields[0] == 0: return io_err('WriteZero')
            n -= r.fields[0]
        return OK([])

def install(it):
    ms = []
    def m(pat, fn): ms.append((re.compile(pat), fn, False))
    m(r'<.* as std::convert::AsRef<std::path::Path>>::as_ref', lambda it, p: p)
    m(r'<.* as std::convert::AsRef<std::ffi::OsStr>>::as_ref', lambda it, p: p)
    m(r'std::path::Path::extension', lambda it, p: SOME(Ref(Box_(S(pstr(p).rsplit('.', 1)[1])))) if '.' in pstr(p) else NONE())
    m(r'std::ffi::OsStr::to_str', lambda it, o: SOME(o))
    m(r'std::path::Path::with_extension::<.*>', lambda it, p, ext: S(pstr(p).rsplit('.', 1)[0] + '.' + pstr(ext)))
    m(r'<std::path::PathBuf as std::ops::Deref>::deref', lambda it, p: p)
    m(r'std::path::Path::new::<.*>', lambda it, p: p)
    m(r'std::path::PathBuf::(as_path|as_mut_os_string|as_os_str)', lambda it, p: p)
    m(r'std::path::Path::(to_path_buf|as_os_str)', lambda it, p: p)
    m(r'<std::path::PathBuf as std::convert::From<.*>>::from', lambda it, p: p)
    m(r'std::path::Path::(exists|is_file)', lambda it, p: pstr(p) in it.fs.files)
    m(r'std::path::Path::try_exists', lambda it, p: OK(pstr(p) in it.fs.files))
    def create(it, p):
        path = pstr(p)
        if not it.fs.meta_ok('create'): return io_err('create failed')
        it.fs.files[path] = ('new', 0); it.fs.snap(it.fs.dest); return OK(FileObj(path))
    m(r'std::fs::File::create::<.*>', create)
    # OpenOptions: the flags decide whether an existing file is emptied; a file that is not emptied keeps its old bytes behind the new ones
    class OpenOpts:
        def __init__(self): self.f = {}
    m(r'std::fs::OpenOptions::new', lambda it: OpenOpts())
    for fl in ('read', 'write', 'append', 'truncate', 'create', 'create_new'):
        m(r'std::fs::OpenOptions::%s$' % fl, (lambda fl_: (lambda it, o, v: (deref_all(o).f.__setitem__(fl_, v), o)[1]))(fl))
    def oo_open(it, o, p):
        path = pstr(p); f = deref_all(o).f
        if f.get('append'): raise Unsupported('OpenOptions::append')
        if not it.fs.meta_ok('create'): return io_err('open failed')
        if path in it.fs.files:
            if f.get('create_new'): return io_err('EEXIST')
            if f.get('truncate'): it.fs.files[path] = ('new', 0)
            else: it.fs.pos[path] = 0
        else:
            if not (f.get('create') or f.get('create_new')): return io_err('ENOENT')
            it.fs.files[path] = ('new', 0)
        it.fs.snap(it.fs.dest); return OK(FileObj(path))
    m(r'std::fs::OpenOptions::open::<.*>', oo_open)
    m(r'std::io::BufWriter::<std::fs::File>::(get_ref|get_mut)', lambda it, w: Ref(Box_(deref_all(w).f)))
    m(r'std::fs::File::(sync_all|sync_data)', lambda it, f: OK([]) if it.fs.meta_ok('sync') else io_err('sync failed'))
    def set_len(it, f, n):
        path = deref_all(f).path
        if not isinstance(n, int): raise Unsupported('symbolic File::set_len')
        if n == 0: it.fs.files[path] = ('new', 0); it.fs.pos[path] = 0; return OK([])
        raise Unsupported('File::set_len(%r)' % n)
    m(r'std::fs::File::set_len', set_len)
    m(r'std::io::BufWriter::<std::fs::File>::new', lambda it, f: BufW(f))
    m(r'std::io::BufWriter::<std::fs::File>::with_capacity', lambda it, cap, f: BufW(f, cap))
    def bw_write_all(it, w, data):
        r = deref_all(w).write_all(it, deref_all(data)); it.fs.snap(it.fs.dest); return r
    m(r'<(&mut )*std::io::BufWriter<std::fs::File> as std::io::Write>::write_all', bw_write_all)
    def bw_write(it, w, data):
        r = deref_all(w).write(it, deref_all(data)); it.fs.snap(it.fs.dest); return r
    m(r'<(&mut )*std::io::BufWriter<std::fs::File> as std::io::Write>::write', bw_write)
    m(r'<(&mut )*std::io::BufWriter<std::fs::File> as std::io::Write>::flush', lambda it, w: deref_all(w).flush_buf(it))
    def rename(it, a, b):
        if pstr(a) not in it.fs.files: return io_err('ENOENT')
        if not it.fs.meta_ok('rename'): return io_err('rename failed')
        it.fs.files[pstr(b)] = it.fs.files.pop(pstr(a)); it.fs.snap(it.fs.dest); return OK([])
    m(r'std::fs::rename::<.*>', rename)
    def remove(it, a):
        if pstr(a) not in it.fs.files: return io_err('ENOENT')
        if not it.fs.meta_ok('remove'): return io_err('remove failed')
        it.fs.files.pop(pstr(a), None); it.fs.snap(it.fs.dest); return OK([])
    m(r'std::fs::remove_file::<.*>', remove)
    m(r'<(&mut )*VerifSink as std::io::Write>::write_all', lambda it, w, data: deref_all(w).write_all(deref_all(data)))
    m(r'<(&mut )*VerifSink as std::io::Write>::write', lambda it, w, data: deref_all(w).write(deref_all(data)))
    m(r'<(&mut )*VerifSink as std::io::Write>::flush', lambda it, w: OK([]))
    m(r'<structs::error::XlsxError as std::convert::From<std::io::Error>>::from', None)
    it.models = [x for x in ms if x[1] is not None] + [x for x in it.models]
