"""Contract models for library code that has no MIR in the dump (std and third-party crates).
Matched on the fully qualified callee name rustc prints. Anything unmatched raises Unsupported."""
import re
import z3
from .core import *
from . import rx as RX

REG = []          # (compiled regex, fn, wants_callee)
def model(pat, wants_callee=False):
    def deco(fn):
        REG.append((re.compile(pat), fn, wants_callee)); return fn
    return deco
def reg(pat, fn): REG.append((re.compile(pat), fn, False))

def lookup(it, callee, base):
    stripped = re.sub(r'::<[^<>]*(?:<[^<>]*(?:<[^<>]*>[^<>]*)*>[^<>]*)*>$', '', callee)
    if stripped == callee:
        gt = generic_tail(callee)
        if gt: stripped = callee[:gt[0]]
    cands = [callee, stripped]
    # the same inherent method is printed under core::, std:: or alloc:: depending on where the impl block lives
    m = re.match(r'(core|std|alloc)::(str|slice|num|char|option|result|iter)::', callee)
    if m:
        for alt in ('core', 'std', 'alloc'):
            if alt != m.group(1): cands += [alt + callee[len(m.group(1)):], alt + stripped[len(m.group(1)):]]
    for lst in (it.models, REG):
        for pat, fn, wc in lst:
            for c in cands:
                if pat.fullmatch(c): return ('modelc' if wc else 'model', fn)
    return None

def B(it, e): return it.ctx.branch(e) if not isinstance(e, bool) else e
def zand(*xs):
    if all(isinstance(x, bool) for x in xs): return all(xs)
    return z3.And(*[z3.BoolVal(x) if isinstance(x, bool) else x for x in xs])
def zor(*xs):
    if all(isinstance(x, bool) for x in xs): return any(xs)
    return z3.Or(*[z3.BoolVal(x) if isinstance(x, bool) else x for x in xs])
def znot(x): return (not x) if isinstance(x, bool) else z3.Not(x)
def box_ref(b):
    b = deref_all(b) if not isinstance(b, BoxPtr) else b
    return Ref(b.cell)
def elem_refs(sl):
    r = root_ref(sl) if isinstance(sl, Ref) else Ref(Box_(sl))
    return [Ref(r.box, r.path + (i,)) for i in range(len(r.get()))]
def it_of(x):
    x = deref_all(x)
    if isinstance(x, PyIter): return x
    if isinstance(x, list): return PyIter(x)
    raise Unsupported('iterator over %r' % (x,))
def rest(x):
    pi = it_of(x); r = pi.items[pi.i:]; pi.i = len(pi.items); return r
def raise_(e): raise e

# ---------------------------------------------------------------- special resolution (generic wrappers)
def resolve_special(it, callee):
    m = re.fullmatch(r'<std::option::Option<(.*)> as std::cmp::PartialEq>::(eq|ne)', callee)
    if m:
        inner = m.group(1)
        def f(it, a, b, inner=inner, neg=(m.group(2) == 'ne')):
            a, b = deref_all(a), deref_all(b)
            if a.variant != b.variant: r = False
            elif a.variant == 0: r = True
            else: r = it.call('<%s as std::cmp::PartialEq>::eq' % inner, [Ref(Box_(a.fields[0])), Ref(Box_(b.fields[0]))])
            return znot(r) if neg else r
        return ('model', f)
    m = re.fullmatch(r'<\((.*)\) as std::cmp::PartialEq>::(eq|ne)', callee)
    if m:
        tys = [t.strip() for t in split_top(m.group(1), ',') if t.strip()]
        def f(it, a, b, tys=tys, neg=(m.group(2) == 'ne')):
            ra, rb = (root_ref(a) if isinstance(a.get(), Ref) else a), (root_ref(b) if isinstance(b.get(), Ref) else b)
            r = True
            for i, ty in enumerate(tys):
                e = it.call('<%s as std::cmp::PartialEq>::eq' % ty, [Ref(ra.box, ra.path + (i,)), Ref(rb.box, rb.path + (i,))])
                if not B(it, e): r = False; break
            return (not r) if neg else r
        return ('model', f)
    m = re.fullmatch(r'<\((.*)\) as std::cmp::PartialOrd>::(lt|le|gt|ge)', callee)
    if m and all(t.strip() in INT_RANGE for t in split_top(m.group(1), ',')):
        meth = m.group(2)
        def f(it, a, b, meth=meth):
            x, y = deref_all(a), deref_all(b)
            for p_, q_ in zip(x, y):
                if B(it, p_ < q_): return meth in ('lt', 'le')
                if B(it, p_ > q_): return meth in ('gt', 'ge')
            return meth in ('le', 'ge')
        return ('model', f)
    m = re.fullmatch(r'<std::boxed::Box<(.*)> as std::cmp::PartialEq>::eq', callee)
    if m:
        inner = m.group(1)
        if inner == 'str': return ('model', lambda it, a, b: str_eq(it, deref_all(a), deref_all(b)))
        return ('model', lambda it, a, b: it.call('<%s as std::cmp::PartialEq>::eq' % inner, [box_ref(a), box_ref(b)]))
    m = re.fullmatch(r'<std::sync::Arc<std::sync::RwLock<(.*)>> as std::default::Default>::default', callee)
    if m:
        inner = m.group(1)
        return ('model', lambda it: BoxPtr(Box_(it.call('<%s as std::default::Default>::default' % inner, []))))
    m = re.fullmatch(r'<std::boxed::Box<(.*)> as std::(default::Default|clone::Clone)>::(default|clone)', callee)
    if m:
        inner, tr, meth = m.groups()
        if inner == 'str':
            return ('model', (lambda it: SStr([])) if meth == 'default' else (lambda it, a: SStr(deref_all(a).chars)))
        return ('model', lambda it, *a: BoxPtr(Box_(it.call('<%s as std::%s>::%s' % (inner, tr, meth), [box_ref(x) for x in a]))))
    m = re.fullmatch(r'<std::option::Option<(.*)> as std::clone::Clone>::clone', callee)
    if m:
        inner = m.group(1)
        def f(it, a, inner=inner):
            a = deref_all(a)
            if a.variant == 0: return NONE()
            return SOME(clone_of(it, inner, Ref(Box_(a.fields[0]))))
        return ('model', f)
    m = re.fullmatch(r'<(?:std::vec::Vec|thin_vec::ThinVec)<(.*)> as std::clone::Clone>::clone', callee)
    if m:
        inner = m.group(1)
        return ('model', lambda it, a: [clone_of(it, inner, r) for r in elem_refs(a)])
    m = re.fullmatch(r'std::mem::take::<(.*)>', callee)
    if m:
        inner = m.group(1)
        def f(it, r, inner=inner):
            old = r.get(); r.set(it.call('<%s as std::default::Default>::default' % inner, [])); return old
        return ('model', f)
    m = re.fullmatch(r'<&(?:mut )?(.*?) as std::cmp::PartialOrd(?:<&(?:mut )?(.*)>)?>::(ge|lt|le|gt|partial_cmp)', callee)
    if m:
        inner, meth = m.group(1), m.group(3)
        return ('model', lambda it, a, b: it.call('<%s as std::cmp::PartialOrd>::%s' % (inner, meth), [a.get(), b.get()]))
    m = re.fullmatch(r'<&(?:mut )?(.*?) as std::cmp::PartialEq(?:<&(?:mut )?(.*)>)?>::(eq|ne)', callee)
    if m and not re.fullmatch(r'<&str as std::cmp::PartialEq<(&?std::string::String)>>::(eq|ne)', callee) and m.group(1) != 'str':
        inner = '<%s as std::cmp::PartialEq%s>::%s' % (m.group(1), ('<%s>' % m.group(2)) if m.group(2) else '', m.group(3))
        return ('model', lambda it, a, b: it.call(inner, [a.get(), b.get()]))
    m = re.fullmatch(r'<(.*) as std::ops::Deref>::deref', callee)
    if m and re.search(r'(^|::)[A-Z][A-Z0-9_]*$', m.group(1)) and '<' not in m.group(1):
        name = m.group(1)
        return ('model', lambda it, r: it.lazy_static(name))
    m = re.fullmatch(r'<([\w:]+(?:<.*>)?) as std::cmp::PartialEq(<.*>)?>::ne', callee)
    if m and m.group(1).split('<')[0].split('::')[0] not in ('std', 'core', 'alloc'):
        eqc = '<%s as std::cmp::PartialEq%s>::eq' % (m.group(1), m.group(2) or '')
        return ('model', lambda it, a, b: znot(it.call(eqc, [a, b])))
    m = re.fullmatch(r'<(.*) as std::string::ToString>::to_string', callee)
    if m and m.group(1) not in ('str', '&str', 'std::string::String', 'char') and m.group(1) not in INT_RANGE and m.group(1).lstrip('&') not in INT_RANGE \
            and not any((k, 'ToString', 'to_string') in it.impls for k in (m.group(1), m.group(1).split('::')[-1])):
        ty = m.group(1)
        return ('model', lambda it, r: SStr(display_of(it, ty, r)))
    return None

def clone_of(it, ty, ref):
    ty = ty.strip()
    if ty in INT_RANGE or ty in ('bool', 'f64', 'char') or ty.startswith('&'): return ref.get()
    return it.call('<%s as std::clone::Clone>::clone' % ty, [ref])

# ---------------------------------------------------------------- integers, comparisons
def int_ty_of(callee):
    m = re.search(r'\b(u8|u16|u32|u64|usize|i8|i16|i32|i64|isize)\b', callee)
    return m.group(1)
@model(r'<&*(?:u8|u16|u32|u64|usize|i32|i64) as std::ops::(Add|Sub|Mul)<?&?\w*>?>::(add|sub|mul)', True)
def m_refarith(it, callee, a, b):
    a, b = deref_all(a), deref_all(b)
    op = re.search(r'::(add|sub|mul)$', callee).group(1)
    r = a + b if op == 'add' else a - b if op == 'sub' else a * b
    if not B(it, in_range(r, int_ty_of(callee))):
        raise Panic('attempt to %s with overflow' % {'add': 'add', 'sub': 'subtract', 'mul': 'multiply'}[op])
    return r
@model(r'<&*(?:u8|u16|u32|u64|usize) as std::ops::Div<?&?\w*>?>::div')
def m_refdiv(it, a, b):
    a, b = deref_all(a), deref_all(b)
    if isinstance(b, int) and b == 0: raise Panic('attempt to divide by zero')
    if isinstance(a, int) and isinstance(b, int): return a // b
    if isinstance(b, int) and b > 0: return it.ctx.divmod(a, b)[0]
    return a / b
@model(r'<&*(?:u8|u16|u32|u64|usize) as std::ops::Rem<?&?\w*>?>::rem')
def m_refrem(it, a, b):
    a, b = deref_all(a), deref_all(b)
    if is_sym(a) and isinstance(b, int) and b > 0: return it.ctx.divmod(a, b)[1]
    return a % b
def cmpm(op): return lambda it, a, b: op(deref_all(a), deref_all(b))
_PRIM = r'(?:u8|u16|u32|u64|usize|i8|i16|i32|i64|isize|char|bool)'
reg(r'<&*%s as std::cmp::PartialOrd(?:<&*%s>)?>::ge' % (_PRIM, _PRIM), cmpm(lambda a, b: a >= b))
reg(r'<&*%s as std::cmp::PartialOrd(?:<&*%s>)?>::gt' % (_PRIM, _PRIM), cmpm(lambda a, b: a > b))
reg(r'<&*%s as std::cmp::PartialOrd(?:<&*%s>)?>::le' % (_PRIM, _PRIM), cmpm(lambda a, b: a <= b))
reg(r'<&*%s as std::cmp::PartialOrd(?:<&*%s>)?>::lt' % (_PRIM, _PRIM), cmpm(lambda a, b: a < b))
def prim_eq(it, a, b):
    a, b = deref_all(a), deref_all(b)
    if isinstance(a, bool) and is_sym(b): a = z3.BoolVal(a)
    if isinstance(b, bool) and is_sym(a): b = z3.BoolVal(b)
    return a == b
reg(r'<&*%s as std::cmp::PartialEq(?:<&*%s>)?>::eq' % (_PRIM, _PRIM), prim_eq)
reg(r'<&*%s as std::cmp::PartialEq(?:<&*%s>)?>::ne' % (_PRIM, _PRIM), lambda it, a, b: znot(prim_eq(it, a, b)))
@model(r'<&*%s as std::cmp::(?:Partial)?Ord>::(?:partial_)?cmp' % _PRIM, True)
def m_prim_cmp(it, callee, a, b):
    o = it.ordering(deref_all(a), deref_all(b))
    return SOME(o) if 'partial_cmp' in callee else o
@model(r'<&*f64 as std::cmp::PartialEq(?:<&*f64>)?>::(eq|ne)', True)
def m_f64_eq(it, callee, a, b):
    a, b = deref_all(a), deref_all(b)
    if isinstance(a, F64Text) and isinstance(b, F64Text):
        # the shortest decimal text is canonical: equal numbers print the same text
        if len(a.chars) != len(b.chars): r = False
        else: r = zand(*[x == y for x, y in zip(a.chars, b.chars)]) if a.chars else True
    elif isinstance(a, float) and isinstance(b, float): r = (a == b)
    else: raise Unsupported('f64 comparison of %r and %r' % (type(a).__name__, type(b).__name__))
    return znot(r) if callee.endswith('ne') else r
reg(r'<f64 as std::clone::Clone>::clone', lambda it, a: deref_all(a))
reg(r'<%s as std::clone::Clone>::clone' % _PRIM, lambda it, a: deref_all(a))
reg(r'<(u8|u16|u32|u64|usize|i32|i64) as std::default::Default>::default', lambda it: 0)
reg(r'<bool as std::default::Default>::default', lambda it: False)
reg(r'<f64 as std::default::Default>::default', lambda it: 0.0)
import math as _math
def _f64_1(name, fn):
    def m(it, a):
        a = deref_all(a)
        if not isinstance(a, float): raise Unsupported('f64::%s of a symbolic value' % name)
        return fn(a)
    reg(r'(?:std|core)::f64::<impl f64>::%s' % name, m)
_f64_1('fract', lambda a: a if _math.isinf(a) and False else (float('nan') if _math.isinf(a) or a != a else _math.copysign(abs(a) - _math.floor(abs(a)), a) if a != 0 else a))
_f64_1('trunc', lambda a: a if (_math.isinf(a) or a != a) else _math.copysign(float(_math.floor(abs(a))), a))
_f64_1('floor', lambda a: a if (_math.isinf(a) or a != a) else float(_math.floor(a)))
_f64_1('ceil', lambda a: a if (_math.isinf(a) or a != a) else float(_math.ceil(a)))
_f64_1('abs', lambda a: abs(a))
_f64_1('is_nan', lambda a: a != a)
_f64_1('is_finite', lambda a: not (_math.isinf(a) or a != a))
_f64_1('is_infinite', lambda a: _math.isinf(a))
_f64_1('is_sign_negative', lambda a: _math.copysign(1.0, a) < 0)
reg(r'core::num::<impl (?:u8|u16|u32|u64|usize|i32|i64)>::(?:min|max)_value', None)
@model(r'core::num::<impl (u8|u16|u32|u64|usize|i32|i64)>::pow', True)
def m_pow(it, callee, b, e):
    if not isinstance(e, int): raise Unsupported('symbolic exponent')
    r = b ** e
    if not B(it, in_range(r, int_ty_of(callee))): raise Panic('attempt to multiply with overflow')
    return r
@model(r'core::num::<impl (u8|u16|u32|u64|usize|i32|i64)>::(checked_sub|checked_add)', True)
def m_checked(it, callee, a, b):
    r = a - b if 'sub' in callee else a + b
    return SOME(r) if B(it, in_range(r, int_ty_of(callee))) else NONE()
@model(r'core::num::<impl (u8|u16|u32|u64|usize|i32|i64)>::(saturating_sub)', True)
def m_satsub(it, callee, a, b):
    lo, hi = INT_RANGE[int_ty_of(callee)]
    r = a - b
    return r if B(it, r >= lo) else lo
@model(r'<(u32|usize|i32|u64|i64|u8|u16) as std::convert::(From|Into|TryFrom)<.*>>::(from|into|try_from)', True)
def m_int_from(it, callee, v):
    if 'try_from' in callee:
        return OK(v) if B(it, in_range(v, int_ty_of(callee))) else ERR('TryFromIntError')
    return v
reg(r'std::cmp::(max|min)_by::<.*>', None)
@model(r'std::cmp::(max|min)::<.*>', True)
def m_minmax(it, callee, a, b):
    if not isinstance(a, (int,)) and not is_sym(a): raise Unsupported('min/max of non-int')
    if 'max' in callee: return b if B(it, b >= a) else a
    return a if B(it, a <= b) else b
@model(r'<(u32|usize|i32) as std::cmp::Ord>::(max|min)', True)
def m_ordminmax(it, callee, a, b):
    if callee.endswith('max'): return b if B(it, b >= a) else a
    return a if B(it, a <= b) else b

# ---------------------------------------------------------------- panics, fmt
reg(r'std::rt::panic_fmt', lambda it, s: raise_(Panic('panic: ' + (pstr(s) if isinstance(deref_all(s), SStr) and all(isinstance(c, int) for c in deref_all(s).chars) else 'panic_fmt'))))
reg(r'core::panicking::panic(_fmt|_display::<.*>|_explicit)?', lambda it, *a: raise_(Panic('panic')))
reg(r'core::panicking::assert_failed::<.*>', lambda it, *a: raise_(Panic('assertion failed')))
reg(r'std::rt::begin_panic::<.*>', lambda it, *a: raise_(Panic('panic')))
reg(r'core::option::unwrap_failed', lambda it, *a: raise_(Panic('unwrap on None')))
reg(r'core::option::expect_failed', lambda it, *a: raise_(Panic('expect failed')))
reg(r'core::result::unwrap_failed', lambda it, *a: raise_(Panic('unwrap on Err')))
reg(r"std::fmt::Arguments::<'_>::from_str(_nonconst)?", lambda it, s: s)
reg(r'std::fmt::format', lambda it, a: a)
reg(r'std::hint::must_use::<.*>', lambda it, x: x)
@model(r"std::fmt::Arguments::<'_>::new::<\d+, \d+>")
def m_args_new(it, tmpl, argsref):
    args = deref_all(argsref); tmpl = deref_all(tmpl); out = []; i = 0; ai = 0
    while True:
        b = tmpl[i]
        if b == 0: break
        if b == 0xC0: out.extend(args[ai]); ai += 1; i += 1
        elif b < 0x80: out.extend(utf8_decode(tmpl[i+1:i+1+b])); i += 1 + b
        else: raise Unsupported('fmt spec byte %#x' % b)
    return SStr(out)
def utf8_decode(bs): return [ord(c) for c in bytes(bs).decode('utf-8')]
def disp_int(it, v):
    if isinstance(v, bool): return [ord(c) for c in ('true' if v else 'false')]
    if isinstance(v, int): return [ord(c) for c in str(v)]
    if z3.is_bool(v): return [ord(c) for c in ('true' if B(it, v) else 'false')]
    if B(it, v < 0): return [45] + disp_int(it, -v)
    for nd in range(1, 21):
        if B(it, v < 10 ** nd):
            return [48 + d for d in it.ctx.digits(v, nd)]
    raise Unsupported('big int display')
def display_of(it, ty, r):
    """Display of a value of static type `ty` -> list of code points"""
    ty = ty.strip()
    while ty.startswith('&'): ty = ty[1:].strip()
    if ty.startswith('mut '): ty = ty[4:]
    v = deref_all(r)
    if ty in ('str', 'std::string::String', 'std::boxed::Box<str>', "std::borrow::Cow<'_, str>"):
        if isinstance(v, Adt): v = deref_all(v.fields[0])
        return list(v.chars)
    if ty == 'char': return [v]
    if ty in INT_RANGE or ty == 'bool': return disp_int(it, v)
    if ty == 'f64':
        if isinstance(v, F64Text):
            if not hasattr(it, '_f64_printed'): it._f64_printed = []
            it._f64_printed = [x for x in it._f64_printed[-7:] if x is not v] + [v]
            return list(v.chars)
        if isinstance(v, float): return [ord(c) for c in fmt_f64(v)]
        raise Unsupported('Display of symbolic f64')
    key = None
    for tkey in (ty, ty.split('::')[-1]):
        if (tkey, 'Display', 'fmt') in it.impls: key = (tkey, 'Display', 'fmt')
    if key:
        fm = Formatter()
        rr = r if isinstance(r, Ref) else Ref(Box_(r))
        while isinstance(rr.get(), Ref): rr = rr.get()
        it.exec_fn(it.fns[it.impls[key]], [rr, Ref(Box_(fm))])
        return fm.out
    raise Unsupported('Display for ' + ty)
class F64Text:
    """an f64 known only through its shortest decimal text (what `to_string` prints, trusted): printing gives the text
    back, parsing that text gives the same number; arithmetic on it is unsupported"""
    def __init__(self, chars): self.chars = list(chars)
class Formatter:
    def __init__(self): self.out = []
def fmt_f64(v):
    if v != v: return 'NaN'
    if v in (float('inf'), float('-inf')): return 'inf' if v > 0 else '-inf'
    if v == int(v) and abs(v) < 1e16: return str(int(v)) if v != 0 or str(v)[0] != '-' else '-0'
    r = repr(v)
    if 'e' in r or 'E' in r:
        from decimal import Decimal
        r = format(Decimal(r), 'f')
    return r
@model(r"core::fmt::rt::Argument::<'_>::new_display::<(.*)>", True)
def m_new_display(it, callee, r):
    ty = re.fullmatch(r"core::fmt::rt::Argument::<'_>::new_display::<(.*)>", callee).group(1)
    return display_of(it, ty, r)
@model(r"std::fmt::Formatter::<'_>::write_str")
def m_fmt_write_str(it, f, s):
    deref_all(f).out.extend(deref_all(s).chars); return OK([])
@model(r"std::fmt::Formatter::<'_>::write_fmt")
def m_fmt_write_fmt(it, f, a):
    deref_all(f).out.extend(deref_all(a).chars); return OK([])
@model(r"<std::string::String as std::fmt::Write>::(write_fmt|write_str)")
def m_string_write_fmt(it, s, a):
    deref_all(s).chars.extend(deref_all(a).chars); return OK([])
@model(r"<std::string::String as std::fmt::Write>::write_char")
def m_string_write_char(it, s, c):
    deref_all(s).chars.append(c); return OK([])
@model(r"<(str|std::string::String) as std::fmt::Display>::fmt")
def m_str_display_fmt(it, s, f):
    deref_all(f).out.extend(deref_all(s).chars); return OK([])
@model(r'<(u8|u16|u32|u64|usize|i32|i64|bool|char|&str|str|std::string::String|&std::string::String) as std::string::ToString>::to_string', True)
def m_to_string(it, callee, v):
    ty = re.match(r'<(.*) as std::string', callee).group(1)
    return SStr(display_of(it, ty, v))
reg(r'<std::boxed::Box<str> as std::string::ToString>::to_string', lambda it, v: SStr(deref_all(v).chars))

# ---------------------------------------------------------------- Option / Result
def opt_variant(it, o):
    v = deref_all(o).variant
    return v
@model(r'std::option::Option::<.*>::unwrap')
def m_unwrap(it, o):
    if o.variant == 1: return o.fields[0]
    raise Panic('called `Option::unwrap()` on a `None` value')
@model(r'std::option::Option::<.*>::expect')
def m_expect(it, o, msg):
    if o.variant == 1: return o.fields[0]
    raise Panic('expect: ' + pstr(msg))
@model(r'std::result::Result::<.*>::(unwrap|expect)')
def m_res_unwrap(it, r, *a):
    if r.variant == 0: return r.fields[0]
    raise Panic('called `Result::unwrap()` on an `Err` value')
reg(r'std::result::Result::<.*>::unwrap_or', lambda it, r, d: r.fields[0] if r.variant == 0 else d)
reg(r'std::result::Result::<.*>::ok', lambda it, r: SOME(r.fields[0]) if r.variant == 0 else NONE())
reg(r'std::result::Result::<.*>::is_ok', lambda it, o: deref_all(o).variant == 0)
reg(r'std::result::Result::<.*>::is_err', lambda it, o: deref_all(o).variant == 1)
@model(r'std::result::Result::<.*>::map_err::<.*>')
def m_map_err(it, r, clo):
    return r if r.variant == 0 else ERR(it.call_closure(clo, r.fields[0]))
@model(r'std::result::Result::<.*>::map::<.*>')
def m_res_map(it, r, clo):
    return OK(it.call_closure(clo, r.fields[0])) if r.variant == 0 else r
reg(r'std::option::Option::<.*>::unwrap_or', lambda it, o, d: o.fields[0] if o.variant == 1 else d)
@model(r'std::option::Option::<(.*)>::unwrap_or_default', True)
def m_unwrap_or_default(it, callee, o):
    if o.variant == 1: return o.fields[0]
    ty = re.fullmatch(r'std::option::Option::<(.*)>::unwrap_or_default', callee).group(1)
    return default_of(it, ty)
@model(r'core::bool::<impl bool>::then::<.*>')
def m_bool_then(it, b, clo): return SOME(it.call_closure(clo)) if B(it, b) else NONE()
@model(r'core::bool::<impl bool>::then_some::<.*>')
def m_bool_then_some(it, b, v): return SOME(v) if B(it, b) else NONE()
@model(r'std::result::Result::<(.*)>::unwrap_or_default', True)
def m_res_unwrap_or_default(it, callee, r):
    if r.variant == 0: return r.fields[0]
    ty = split_top(re.fullmatch(r'std::result::Result::<(.*)>::unwrap_or_default', callee).group(1), ',')[0]
    return default_of(it, ty)
def default_of(it, ty):
    ty = ty.strip()
    if ty in ('f64', 'f32'): return 0.0
    if ty in ('u8', 'u16', 'u32', 'u64', 'usize', 'i8', 'i16', 'i32', 'i64', 'isize'): return 0
    if ty == 'bool': return False
    if ty.startswith('(') and ty.endswith(')'):
        return [default_of(it, t) for t in split_top(ty[1:-1], ',') if t.strip()]
    return it.call('<%s as std::default::Default>::default' % ty, [])
@model(r'std::option::Option::<.*>::filter::<.*>')
def m_opt_filter(it, o, clo):
    if o.variant != 1: return o
    return o if B(it, it.call_closure(clo, Ref(Box_(o.fields[0])))) else NONE()
@model(r'std::option::Option::<.*>::unwrap_or_else::<.*>')
def m_unwrap_or_else(it, o, clo): return o.fields[0] if o.variant == 1 else it.call_closure(clo)
@model(r'std::option::Option::<.*>::map_or::<.*>')
def m_map_or(it, o, d, clo): return it.call_closure(clo, o.fields[0]) if o.variant == 1 else d
@model(r'std::option::Option::<.*>::(is_some_and)::<.*>')
def m_is_some_and(it, o, clo): return it.call_closure(clo, o.fields[0]) if o.variant == 1 else False
@model(r'std::option::Option::<.*>::map::<.*>')
def m_opt_map(it, o, clo): return SOME(it.call_closure(clo, o.fields[0])) if o.variant == 1 else NONE()
@model(r'std::option::Option::<.*>::and_then::<.*>')
def m_opt_and_then(it, o, clo): return it.call_closure(clo, o.fields[0]) if o.variant == 1 else NONE()
@model(r'std::option::Option::<.*>::(ok_or)::<.*>')
def m_ok_or(it, o, e): return OK(o.fields[0]) if o.variant == 1 else ERR(e)
@model(r'std::option::Option::<.*>::(as_ref|as_mut)')
def m_opt_as_ref(it, o):
    o = root_ref(o) if isinstance(o.get(), Ref) else o
    return SOME(Ref(o.box, o.path + (0,))) if o.get().variant == 1 else NONE()
@model(r'std::option::Option::<.*>::(as_deref|as_deref_mut)')
def m_opt_as_deref(it, o):
    o = root_ref(o) if isinstance(o.get(), Ref) else o
    if o.get().variant != 1: return NONE()
    inner = o.get().fields[0]
    if isinstance(inner, BoxPtr): return SOME(Ref(inner.cell))
    return SOME(Ref(o.box, o.path + (0,)))
reg(r'std::option::Option::<.*>::is_none', lambda it, o: deref_all(o).variant == 0)
reg(r'std::option::Option::<.*>::is_some', lambda it, o: deref_all(o).variant == 1)
reg(r'std::option::Option::<std::option::Option<.*>>::flatten', lambda it, o: o.fields[0] if o.variant == 1 else NONE())
reg(r'std::option::Option::<&.*>::(copied|cloned)', lambda it, o: SOME(it.clone(deref_all(o.fields[0]))) if o.variant == 1 else NONE())
@model(r'std::option::Option::<.*>::take')
def m_opt_take(it, r):
    old = r.get(); r.set(NONE()); return old
@model(r'std::option::Option::<.*>::(get_or_insert|insert)')
def m_opt_get_or_insert(it, r, v):
    r = root_ref(r) if isinstance(r.get(), Ref) else r
    if r.get().variant != 1: r.set(SOME(v))
    return Ref(r.box, r.path + (0,))
@model(r'std::option::Option::<.*>::get_or_insert_with::<.*>')
def m_opt_get_or_insert_with(it, r, clo):
    r = root_ref(r) if isinstance(r.get(), Ref) else r
    if r.get().variant != 1: r.set(SOME(it.call_closure(clo)))
    return Ref(r.box, r.path + (0,))
reg(r'<std::option::Option<.*> as std::default::Default>::default', lambda it: NONE())
reg(r'<std::result::Result<.*> as std::ops::Try>::branch', lambda it, r: Adt(0, [r.fields[0]]) if r.variant == 0 else Adt(1, [ERR(r.fields[0])]))
reg(r'<std::option::Option<.*> as std::ops::Try>::branch', lambda it, r: Adt(0, [r.fields[0]]) if r.variant == 1 else Adt(1, [NONE()]))
reg(r'<std::option::Option<.*> as std::ops::FromResidual<std::option::Option<std::convert::Infallible>>>::from_residual', lambda it, r: NONE())
@model(r'<std::result::Result<(.*)> as std::ops::FromResidual<std::result::Result<std::convert::Infallible, (.*)>>>::from_residual', True)
def m_from_residual(it, callee, r):
    m = re.fullmatch(r'<std::result::Result<(.*)> as std::ops::FromResidual<std::result::Result<std::convert::Infallible, (.*)>>>::from_residual', callee)
    target_e = split_top(m.group(1), ',')[-1].strip(); src_e = m.group(2).strip()
    e = r.fields[0]
    if target_e == src_e: return ERR(e)
    return ERR(it.call('<%s as std::convert::From<%s>>::from' % (target_e, src_e), [e]))

@model(r'<(.*) as std::ops::(Fn|FnMut|FnOnce)<\(.*\)>>::call(_mut|_once)?', True)
def m_fn_call(it, callee, f, args):
    fv = deref_all(f) if isinstance(f, Ref) else f
    if fv is None:
        # a closure without captures is zero-sized: MIR never assigns its local, the type names the body
        m = re.match(r'<&*(?:mut )?(\{closure@[^}]*\}) as ', callee)
        if m and m.group(1) in it.closures: fv = Closure(it.closures[m.group(1)], [])
        else: raise Unsupported('call through an uninitialised callable: ' + callee)
    return it.call_closure(fv, *list(args))
# ---------------------------------------------------------------- atomics (sequentially consistent cells: the executor never runs two things at once)
class AtomicCell:
    def __init__(self, v): self.v = v
_AT = r'std::sync::atomic::(?:Atomic::<\w+>|Atomic(?:Usize|Isize|U8|U16|U32|U64|I8|I16|I32|I64|Bool))'
reg(r'<std::sync::atomic::(?:Atomic<\w+>|Atomic\w+) as std::default::Default>::default', lambda it: AtomicCell(0))
reg(_AT + r'::new', lambda it, v: AtomicCell(v))
reg(_AT + r'::load', lambda it, a, o: deref_all(a).v)
reg(_AT + r'::into_inner', lambda it, a: deref_all(a).v)
def _at_store(it, a, v, o): deref_all(a).v = v; return []
reg(_AT + r'::store', _at_store)
def _at_rmw(fn):
    def m(it, a, v, o):
        c = deref_all(a); old = c.v; c.v = fn(old, v); return old
    return m
reg(_AT + r'::fetch_add', _at_rmw(lambda x, y: x + y))
reg(_AT + r'::fetch_sub', _at_rmw(lambda x, y: x - y))
reg(_AT + r'::swap', _at_rmw(lambda x, y: y))
# ---------------------------------------------------------------- Box / Arc / mem
reg(r'std::boxed::Box::<.*>::new', lambda it, v: BoxPtr(Box_(v)))
reg(r'std::boxed::Box::<.*>::new_uninit', lambda it: BoxPtr(Box_(Uninit())))
reg(r'std::boxed::box_assume_init_into_vec_unsafe::<.*>', lambda it, b: list(b.cell.v.val))
reg(r'<std::boxed::Box<.*> as std::convert::(AsRef|AsMut)<.*>>::(as_ref|as_mut)', lambda it, b: box_ref(b))
reg(r'<std::boxed::Box<str> as std::ops::Deref>::deref', lambda it, s: s)
reg(r'<std::boxed::Box<.*> as std::ops::Deref(Mut)?>::deref(_mut)?', lambda it, b: box_ref(b) if isinstance(deref_all(b), BoxPtr) else b)
reg(r'std::sync::Arc::<.*>::new', lambda it, v: BoxPtr(Box_(v)))
reg(r'<std::sync::Arc<.*> as std::ops::Deref>::deref', lambda it, a: box_ref(a))
reg(r'<std::sync::Arc<.*> as std::clone::Clone>::clone', lambda it, a: deref_all(a))
reg(r'std::sync::(RwLock|Mutex)::<.*>::new', lambda it, v: v)
reg(r'std::sync::Mutex::<.*>::lock', lambda it, l: OK(l))
reg(r'<std::sync::MutexGuard<.*> as std::ops::Deref(Mut)?>::deref(_mut)?', lambda it, g: g.get() if isinstance(g.get(), Ref) else g)
reg(r'std::sync::RwLock::<.*>::(read|write)', lambda it, l: OK(l))
reg(r'<std::sync::RwLock(Read|Write)Guard<.*> as std::ops::Deref(Mut)?>::deref(_mut)?', lambda it, g: g.get() if isinstance(g.get(), Ref) else g)
@model(r'std::mem::replace::<.*>')
def m_replace(it, r, v):
    old = r.get(); r.set(v); return old
@model(r'std::mem::swap::<.*>')
def m_swap(it, a, b):
    x, y = a.get(), b.get(); a.set(y); b.set(x); return []
reg(r'std::mem::drop::<.*>', lambda it, v: (v.drop_hook(it) if hasattr(v, 'drop_hook') else None, [])[1])
reg(r'<.* as std::convert::(AsRef|Borrow)<.*>>::(as_ref|borrow)', lambda it, s: (s.get() if isinstance(s.get(), Ref) else s) if isinstance(s, Ref) else Ref(Box_(s)))
reg(r'<.* as std::convert::AsMut<.*>>::as_mut', lambda it, s: s.get() if isinstance(s.get(), Ref) else s)
reg(r'<(\w+) as std::convert::From<\1>>::from', lambda it, v: v)
reg(r'<(.+) as std::convert::Into<\1>>::into', lambda it, v: v)
reg(r'<std::borrow::Cow<.*> as std::ops::Deref>::deref', lambda it, c: (lambda v: v.fields[0] if isinstance(v.fields[0], Ref) else Ref(Box_(v.fields[0])))(deref_all(c)))
reg(r"<std::borrow::Cow<'_, str> as std::convert::Into<std::string::String>>::into", lambda it, c: SStr(deref_all(c.fields[0]).chars))
reg(r"<(std::string::String|&str|&std::string::String) as std::convert::Into<std::borrow::Cow<'_, str>>>::into", lambda it, s: Adt(1, [s]) if isinstance(s, SStr) else Adt(0, [s]))
reg(r"<std::borrow::Cow<'_, str> as std::convert::From<(std::string::String|&str|&std::string::String)>>::from", lambda it, s: Adt(1, [s]) if isinstance(s, SStr) else Adt(0, [s]))
reg(r"std::borrow::Cow::<'_, str>::into_owned", lambda it, c: SStr(deref_all(c.fields[0]).chars))

# ---------------------------------------------------------------- strings and chars
def str_eq(it, a, b):
    if len(a.chars) != len(b.chars): return False
    for x, y in zip(a.chars, b.chars):
        c = (x == y)
        if not B(it, c): return False
    return True
_STR = r'(?:&*str|&*std::string::String|std::boxed::Box<str>|&*std::boxed::Box<str>)'
def _sv(v):
    v = deref_all(v)
    if isinstance(v, Adt) and v.fields and isinstance(deref_all(v.fields[0]), SStr): v = deref_all(v.fields[0])   # Cow
    return v
reg(r'<%s as std::cmp::PartialEq(?:<%s>)?>::eq' % (_STR, _STR), lambda it, a, b: str_eq(it, _sv(a), _sv(b)))
reg(r'<%s as std::cmp::PartialEq(?:<%s>)?>::ne' % (_STR, _STR), lambda it, a, b: not str_eq(it, _sv(a), _sv(b)))
reg(r"<std::borrow::Cow<'_, str> as std::cmp::PartialEq<&str>>::eq", lambda it, a, b: str_eq(it, _sv(a), _sv(b)))
@model(r'<%s as std::cmp::(Ord|PartialOrd)(?:<%s>)?>::(cmp|partial_cmp|lt|le|gt|ge)' % (_STR, _STR), True)
def m_str_cmp(it, callee, a, b):
    """lexicographic comparison by code point (= byte-wise order of the UTF-8 encodings)"""
    x, y = _sv(a).chars, _sv(b).chars; o = 0
    for p_, q_ in zip(x, y):
        if B(it, p_ < q_): o = -1; break
        if B(it, p_ > q_): o = 1; break
    if o == 0: o = (len(x) > len(y)) - (len(x) < len(y))
    meth = callee.rsplit('::', 1)[1]
    if meth == 'cmp': return Adt(o, [])
    if meth == 'partial_cmp': return SOME(Adt(o, []))
    return {'lt': o < 0, 'le': o <= 0, 'gt': o > 0, 'ge': o >= 0}[meth]
reg(r'<std::string::String as std::ops::Deref(Mut)?>::deref(_mut)?', lambda it, s: s)
reg(r'std::string::String::(as_str|as_mut_str)', lambda it, s: s)
reg(r'std::string::String::new', lambda it: SStr([]))
reg(r'std::string::String::with_capacity', lambda it, n: SStr([]))
reg(r'<std::string::String as std::default::Default>::default', lambda it: SStr([]))
reg(r'<std::boxed::Box<str> as std::default::Default>::default', lambda it: SStr([]))
reg(r'<std::string::String as std::clone::Clone>::clone', lambda it, s: SStr(deref_all(s).chars))
reg(r'<std::string::String as std::convert::From<(&str|&std::string::String|std::boxed::Box<str>|&mut str)>>::from', lambda it, s: SStr(deref_all(s).chars))
reg(r'<std::string::String as std::convert::From<char>>::from', lambda it, c: SStr([c]))
reg(r'<std::boxed::Box<str> as std::convert::From<(&str|std::string::String)>>::from', lambda it, s: SStr(deref_all(s).chars))
reg(r'<(&str|std::string::String|&std::string::String|std::boxed::Box<str>) as std::convert::Into<(std::string::String|std::boxed::Box<str>)>>::into', lambda it, s: SStr(deref_all(s).chars))
reg(r'<char as std::convert::Into<std::string::String>>::into', lambda it, c: SStr([c]))
reg(r'std::string::String::into_boxed_str', lambda it, s: s)
reg(r'core::str::<impl str>::(to_string|to_owned)', lambda it, s: SStr(deref_all(s).chars))
reg(r'<str as std::borrow::ToOwned>::to_owned', lambda it, s: SStr(deref_all(s).chars))
reg(r'std::string::String::is_empty', lambda it, s: len(deref_all(s).chars) == 0)
reg(r'core::str::<impl str>::is_empty', lambda it, s: len(deref_all(s).chars) == 0)
@model(r'std::string::String::push')
def m_str_push(it, s, c): deref_all(s).chars.append(c); return []
@model(r'std::string::String::push_str')
def m_str_push_str(it, s, t): deref_all(s).chars.extend(deref_all(t).chars); return []
@model(r'<std::string::String as std::ops::Add<&str>>::add')
def m_str_add(it, s, t): return SStr(deref_all(s).chars + deref_all(t).chars)
@model(r'<std::string::String as std::ops::AddAssign<&str>>::add_assign')
def m_str_addassign(it, s, t): deref_all(s).chars.extend(deref_all(t).chars); return []
@model(r'std::string::String::clear')
def m_str_clear(it, s): deref_all(s).chars[:] = []; return []
def utf8_len_of(it, c):
    if isinstance(c, int): return len(chr(c).encode('utf-8', 'surrogatepass'))
    if B(it, c < 0x80): return 1
    if B(it, c < 0x800): return 2
    if B(it, c < 0x10000): return 3
    return 4
@model(r'(std::string::String|core::str::<impl str>)::len')
def m_strlen(it, s):
    return sum(utf8_len_of(it, c) for c in deref_all(s).chars)
@model(r'core::str::<impl str>::chars')
def m_chars(it, s): return PyIter(deref_all(s).chars)
@model(r'core::str::<impl str>::char_indices')
def m_char_indices(it, s):
    out, off = [], 0
    for c in deref_all(s).chars:
        out.append([off, c]); off += utf8_len_of(it, c)
    return PyIter(out)
@model(r'std::string::String::into_bytes')
def m_into_bytes(it, s): return str_bytes(it, deref_all(s))
@model(r'(core::str::<impl str>|std::string::String)::as_bytes')
def m_as_bytes(it, s): return Ref(Box_(StrBytes(str_bytes(it, deref_all(s)), deref_all(s).chars)))
class StrBytes(list):
    """the bytes of a borrowed str (immutable); remembers the code points they encode"""
    def __init__(self, bs, chars): super().__init__(bs); self.chars = list(chars)
@model(r'core::str::<impl str>::bytes')
def m_str_bytes(it, s): return PyIter(str_bytes(it, deref_all(s)))
def str_bytes(it, s):
    """UTF-8 encoding; a symbolic code point forks on its length class and is encoded arithmetically"""
    out = []
    for c in s.chars:
        if hasattr(c, 'opaque_bytes'): out.extend(c.opaque_bytes())
        elif isinstance(c, int): out.extend(chr(c).encode('utf-8', 'surrogatepass'))
        elif B(it, c < 0x80): out.append(c)
        elif B(it, c < 0x800):
            q, r = it.ctx.divmod(c, 64); out += [0xC0 + q, 0x80 + r]
        elif B(it, c < 0x10000):
            q, r = it.ctx.divmod(c, 64); q2, r2 = it.ctx.divmod(q, 64); out += [0xE0 + q2, 0x80 + r2, 0x80 + r]
        else:
            q, r = it.ctx.divmod(c, 64); q2, r2 = it.ctx.divmod(q, 64); q3, r3 = it.ctx.divmod(q2, 64); out += [0xF0 + q3, 0x80 + r3, 0x80 + r2, 0x80 + r]
    return out
def byte_offset_to_index(it, s, off):
    """char index for a byte offset (must be a boundary)"""
    if not isinstance(off, int): raise Unsupported('symbolic byte offset')
    cur = 0
    for i, c in enumerate(s.chars):
        if cur == off: return i
        cur += utf8_len_of(it, c)
        if cur > off: raise Panic('byte index %d is not a char boundary' % off)
    if cur == off: return len(s.chars)
    raise Panic('byte index out of range')
@model(r'core::str::traits::<impl std::ops::Index<(.*)> for str>::index', True)
def m_str_index(it, callee, s, rng):
    sv = deref_all(s); f = rng.fields
    if 'RangeFull' in callee: return Ref(Box_(SStr(sv.chars)))
    if 'RangeFrom' in callee: a, b = byte_offset_to_index(it, sv, f[0]), len(sv.chars)
    elif 'RangeTo' in callee: a, b = 0, byte_offset_to_index(it, sv, f[0])
    else:
        if isinstance(f[0], int) and isinstance(f[1], int) and f[0] > f[1]: raise Panic('slice index starts after end')
        a, b = byte_offset_to_index(it, sv, f[0]), byte_offset_to_index(it, sv, f[1])
    return Ref(Box_(SStr(sv.chars[a:b])))
REG.append((re.compile(r'<std::string::String as std::ops::Index(?:Mut)?<(.*)>>::index(?:_mut)?'), m_str_index, True))
REG.append((re.compile(r'<str as std::ops::Index<(.*)>>::index'), m_str_index, True))
@model(r'core::str::<impl str>::get::<.*>', True)
def m_str_get(it, callee, s, rng):
    try: return SOME(m_str_index(it, callee, s, rng))
    except Panic: return NONE()
def upper_lower(it, s, up):
    out = []
    for c in deref_all(s).chars:
        if isinstance(c, int): out.extend(ord(x) for x in (chr(c).upper() if up else chr(c).lower()))
        else:
            lo, hi, d = (97, 122, -32) if up else (65, 90, 32)
            if B(it, z3.And(c >= lo, c <= hi)): out.append(c + d)
            elif B(it, c < 128): out.append(c)
            else:
                v = it.ctx.concretize(c)
                if v is None: raise Unsupported('case mapping of symbolic non-ASCII char')
                out.extend(ord(x) for x in (chr(v).upper() if up else chr(v).lower()))
    return SStr(out)
reg(r'(?:std|alloc|core)::str::<impl str>::to_uppercase', lambda it, s: upper_lower(it, s, True))
reg(r'(?:std|alloc|core)::str::<impl str>::to_lowercase', lambda it, s: upper_lower(it, s, False))
reg(r'(?:std|alloc|core)::str::<impl str>::to_ascii_uppercase', lambda it, s: upper_lower(it, s, True))
@model(r'core::str::<impl str>::contains::<char>')
def m_contains_char(it, s, ch):
    for c in deref_all(s).chars:
        if B(it, c == ch): return True
    return False
@model(r'core::str::<impl str>::contains::<(fn\(char\) -> bool \{.*\}|\{closure@.*\})>')
def m_contains_pred(it, s, f):
    for c in deref_all(s).chars:
        if B(it, it.call_closure(f, c)): return True
    return False
@model(r'core::str::<impl str>::contains::<(&\[char\]|\[char; \d+\]|&\[char; \d+\])>')
def m_contains_chars(it, s, pats):
    ps = list(deref_all(pats))
    for c in deref_all(s).chars:
        if B(it, zor(*[c == p_ for p_ in ps])): return True
    return False
def find_sub(it, hay, nee, start=0):
    n, m = len(hay), len(nee)
    for i in range(start, n - m + 1):
        ok = True
        for k in range(m):
            if not B(it, hay[i + k] == nee[k]): ok = False; break
        if ok: return i
    return None
@model(r'core::str::<impl str>::contains::<&(str|std::string::String)>')
def m_contains_str(it, s, t): return find_sub(it, deref_all(s).chars, deref_all(t).chars) is not None
@model(r'core::str::<impl str>::(starts_with|ends_with)::<(fn\(char\) -> bool \{.*\}|\{closure@.*\})>', True)
def m_starts_ends_pred(it, callee, s, f):
    cs = deref_all(s).chars
    if not cs: return False
    return B(it, it.call_closure(f, cs[0] if '::starts_with::' in callee else cs[-1]))
@model(r'core::str::<impl str>::starts_with::<(&str|char|&std::string::String)>')
def m_starts_with(it, s, t):
    h = deref_all(s).chars; t = deref_all(t); n = t.chars if isinstance(t, SStr) else [t]
    if len(n) > len(h): return False
    return all(B(it, h[i] == n[i]) for i in range(len(n)))
@model(r'core::str::<impl str>::ends_with::<(&str|char|&std::string::String)>')
def m_ends_with(it, s, t):
    h = deref_all(s).chars; t = deref_all(t); n = t.chars if isinstance(t, SStr) else [t]
    if len(n) > len(h): return False
    return all(B(it, h[len(h) - len(n) + i] == n[i]) for i in range(len(n)))
@model(r'core::str::<impl str>::(strip_prefix|strip_suffix)::<(&str|char)>', True)
def m_strip(it, callee, s, t):
    h = deref_all(s).chars; t = deref_all(t); n = t.chars if isinstance(t, SStr) else [t]
    if len(n) > len(h): return NONE()
    if 'prefix' in callee:
        if all(B(it, h[i] == n[i]) for i in range(len(n))): return SOME(Ref(Box_(SStr(h[len(n):]))))
    elif all(B(it, h[len(h) - len(n) + i] == n[i]) for i in range(len(n))): return SOME(Ref(Box_(SStr(h[:len(h) - len(n)]))))
    return NONE()
@model(r'std::char::methods::<impl char>::from_digit')
def m_from_digit(it, d, radix):
    if radix != 10: raise Unsupported('from_digit radix')
    return SOME(d + 48) if B(it, zand(d >= 0, d <= 9)) else NONE()
@model(r'core::str::<impl str>::find::<(&str|char)>')
def m_find(it, s, t):
    sv = deref_all(s); t = deref_all(t); n = t.chars if isinstance(t, SStr) else [t]
    i = find_sub(it, sv.chars, n)
    if i is None: return NONE()
    return SOME(sum(utf8_len_of(it, c) for c in sv.chars[:i]))
def split_on(it, chars, sep):
    parts, cur, i = [], [], 0
    if len(sep) == 0: raise Unsupported('split on empty')
    while i < len(chars):
        if i + len(sep) <= len(chars) and all(B(it, chars[i + k] == sep[k]) for k in range(len(sep))):
            parts.append(SStr(cur)); cur = []; i += len(sep)
        else: cur.append(chars[i]); i += 1
    parts.append(SStr(cur))
    return parts
@model(r'core::str::<impl str>::split::<(char|&str)>')
def m_split(it, s, sep):
    sep = deref_all(sep)
    return PyIter([Ref(Box_(p)) for p in split_on(it, deref_all(s).chars, sep.chars if isinstance(sep, SStr) else [sep])])
@model(r'core::str::<impl str>::(rsplit_once|split_once)::<(char|&str)>', True)
def m_split_once(it, callee, s, sep):
    cs = deref_all(s).chars; sep = deref_all(sep); sp = sep.chars if isinstance(sep, SStr) else [sep]
    rng = range(len(cs) - len(sp), -1, -1) if 'rsplit' in callee else range(0, len(cs) - len(sp) + 1)
    for i in rng:
        if all(B(it, cs[i + k] == sp[k]) for k in range(len(sp))):
            return SOME([Ref(Box_(SStr(cs[:i]))), Ref(Box_(SStr(cs[i+len(sp):])))])
    return NONE()
@model(r'core::str::<impl str>::(trim_matches|trim_start_matches|trim_end_matches)::<.*>', True)
def m_trim_matches(it, callee, s, pats):
    cs = list(deref_all(s).chars); ps = deref_all(pats)
    if isinstance(ps, int) or is_sym(ps): ps = [ps]
    if isinstance(ps, SStr): raise Unsupported('trim_matches with str pattern')
    def hit(c): return B(it, zor(*[c == p for p in ps]))
    if 'end' not in callee:
        while cs and hit(cs[0]): cs.pop(0)
    if 'start' not in callee:
        while cs and hit(cs[-1]): cs.pop()
    return Ref(Box_(SStr(cs)))
def is_ws(c):
    if isinstance(c, int): return chr(c).isspace()
    return z3.Or(z3.And(c >= 9, c <= 13), c == 32, c == 0x85, c == 0xA0, c == 0x1680, z3.And(c >= 0x2000, c <= 0x200A),
                 c == 0x2028, c == 0x2029, c == 0x202F, c == 0x205F, c == 0x3000)
@model(r'core::str::<impl str>::(trim|trim_start|trim_end)', True)
def m_trim(it, callee, s):
    cs = list(deref_all(s).chars)
    if not callee.endswith('trim_end'):
        while cs and B(it, is_ws(cs[0])): cs.pop(0)
    if not callee.endswith('trim_start'):
        while cs and B(it, is_ws(cs[-1])): cs.pop()
    return Ref(Box_(SStr(cs)))
@model(r'(?:core|std|alloc)::str::<impl str>::(replace|replacen)::<(&str|char|&std::string::String)>', True)
def m_replace_str(it, callee, s, a, b, *n):
    a = deref_all(a); pat = a.chars if isinstance(a, SStr) else [a]
    parts = split_on(it, deref_all(s).chars, pat)
    out = []
    for i, p in enumerate(parts):
        if i: out += deref_all(b).chars
        out += p.chars
    return SStr(out)
@model(r'(?:core|std|alloc)::str::<impl str>::replace::<(&\[char\]|\[char; \d+\]|&\[char; \d+\]|fn\(char\) -> bool \{.*\}|\{closure@.*\})>', True)
def m_replace_charset(it, callee, s, pats, b):
    out = []; rep = deref_all(b).chars
    if 'closure' in callee or 'fn(' in callee: hit = lambda c: B(it, it.call_closure(pats, c))
    else:
        ps = list(deref_all(pats)); hit = lambda c: B(it, zor(*[c == p_ for p_ in ps]))
    for c in deref_all(s).chars:
        if hit(c): out += rep
        else: out.append(c)
    return SStr(out)
@model(r'std::slice::<impl \[(std::string::String|&str)\]>::join::<&str>')
def m_join(it, v, sep):
    out = []
    for i, x in enumerate(deref_all(v)):
        if i: out += deref_all(sep).chars
        out += deref_all(x).chars
    return SStr(out)
@model(r'std::slice::<impl \[(std::string::String|&str)\]>::concat::<.*>')
def m_concat(it, v):
    out = []
    for x in deref_all(v): out += deref_all(x).chars
    return SStr(out)
@model(r'core::str::<impl str>::repeat')
def m_repeat(it, s, n):
    if not isinstance(n, int): raise Unsupported('symbolic repeat')
    return SStr(deref_all(s).chars * n)
@model(r'core::str::<impl str>::encode_utf16')
def m_utf16(it, s):
    out = []
    for c in deref_all(s).chars:
        if isinstance(c, int):
            if c < 0x10000: out.append(c)
            else: out += [0xD800 + ((c - 0x10000) >> 10), 0xDC00 + ((c - 0x10000) & 0x3FF)]
        elif B(it, c < 0x10000): out.append(c)
        else: out += [0xD800 + (c - 0x10000) / 1024, 0xDC00 + (c - 0x10000) % 1024]
    return PyIter(out)
def parse_uint(it, cs, maxv, minv=0, signed=False):
    i, neg = 0, False
    if cs and B(it, cs[0] == 43): i = 1
    elif signed and cs and B(it, cs[0] == 45): i, neg = 1, True
    if i >= len(cs): return ERR('empty')
    v = 0
    for c in cs[i:]:
        if not B(it, zand(c >= 48, c <= 57)): return ERR('invalid digit')
        v = v * 10 + (c - 48)
    if neg: v = -v
    if not B(it, zand(v <= maxv, v >= minv)): return ERR('overflow')
    return OK(v)
@model(r'core::str::<impl str>::parse::<(u8|u16|u32|u64|usize|i32|i64)>', True)
def m_parse_int(it, callee, s):
    ty = int_ty_of(callee); lo, hi = INT_RANGE[ty]
    return parse_uint(it, deref_all(s).chars, hi, lo, signed=ty[0] == 'i')
def f64_syntax_ok(it, cs):
    isd = lambda c: B(it, zand(c >= 48, c <= 57))
    ise = lambda c, ch: B(it, zor(c == ord(ch), c == ord(ch.upper())))
    def special(i):
        for w in ('infinity', 'inf', 'nan'):
            if len(cs) - i == len(w) and all(ise(cs[i + k], w[k]) for k in range(len(w))): return True
        return False
    i = 0
    if not cs: return False
    if B(it, cs[0] == 43) or B(it, cs[0] == 45): i = 1
    if i >= len(cs): return False
    if special(i): return True
    nd = 0
    while i < len(cs) and isd(cs[i]): i += 1; nd += 1
    if i < len(cs) and B(it, cs[i] == 46):
        i += 1
        while i < len(cs) and isd(cs[i]): i += 1; nd += 1
    if nd == 0: return False
    if i < len(cs) and ise(cs[i], 'e'):
        i += 1
        if i < len(cs) and (B(it, cs[i] == 43) or B(it, cs[i] == 45)): i += 1
        ne = 0
        while i < len(cs) and isd(cs[i]): i += 1; ne += 1
        if ne == 0: return False
    return i == len(cs)
class OpaqueF64:
    """result of parsing symbolic text as f64: only is_ok()/is_err() may look at it"""
    pass
@model(r'core::str::<impl str>::parse::<f64>')
def m_parse_f64(it, s):
    cs = deref_all(s).chars
    for v in reversed(getattr(it, '_f64_printed', [])):
        # text that is, character for character, what an F64Text was printed as parses back to that very number
        if len(v.chars) == len(cs) and all((a is b) or (isinstance(a, int) and isinstance(b, int) and a == b) or (is_sym(a) and is_sym(b) and a.eq(b)) for a, b in zip(v.chars, cs)): return OK(v)
    if all(isinstance(c, int) for c in cs):
        try: return OK(float(''.join(map(chr, cs)).replace('infinity', 'inf'))) if f64_syntax_ok(it, cs) else ERR('ParseFloatError')
        except ValueError: return ERR('ParseFloatError')
    return OK(OpaqueF64()) if f64_syntax_ok(it, cs) else ERR('ParseFloatError')
@model(r'std::char::methods::<impl char>::from_u32')
def m_from_u32(it, v):
    ok = zand(v >= 0, v <= 0x10FFFF, znot(zand(v >= 0xD800, v <= 0xDFFF)))
    return SOME(v) if B(it, ok) else NONE()
@model(r'std::char::methods::<impl char>::(is_ascii_digit)')
def m_is_digit(it, c):
    c = deref_all(c)
    return zand(c >= 48, c <= 57)
@model(r'core::num::<impl u8>::is_ascii_whitespace')
def m_u8_ws(it, b):
    b = deref_all(b); return zor(b == 32, b == 9, b == 10, b == 12, b == 13)
@model(r'core::num::<impl u8>::is_ascii_digit')
def m_u8_digit(it, b):
    b = deref_all(b); return zand(b >= 48, b <= 57)
@model(r'std::char::methods::<impl char>::is_ascii_alphabetic')
def m_is_alpha(it, c):
    c = deref_all(c); return zor(zand(c >= 65, c <= 90), zand(c >= 97, c <= 122))
_TABLES = {}
def char_table(name):
    """ranges of the std predicate `char::is_<name>`, dumped from the toolchain's own tables by the native binary"""
    if name not in _TABLES:
        import json, os
        from . import native
        path = os.path.join(native.CACHE, 'chartable-%s.json' % name)
        if not os.path.exists(path):
            r = native.run_cases([['chartable', name]], timeout_each=60)[0]
            if r[0] != 'ok': raise Unsupported('char table ' + name)
            json.dump([[int(x) for x in t.split('-')] for t in r[1]], open(path, 'w'))
        _TABLES[name] = json.load(open(path))
    return _TABLES[name]
def char_pred(it, name, c):
    tab = char_table(name)
    if isinstance(c, int): return any(lo <= c <= hi for lo, hi in tab)
    return z3.Or(*[(c == lo) if lo == hi else z3.And(c >= lo, c <= hi) for lo, hi in tab])
@model(r'std::char::methods::<impl char>::is_(alphanumeric|alphabetic|numeric|uppercase|lowercase|control|whitespace)', True)
def m_char_pred(it, callee, c):
    return char_pred(it, callee.rsplit('is_', 1)[1], deref_all(c))
@model(r'std::char::methods::<impl char>::to_digit')
def m_to_digit(it, c, radix):
    if radix != 10: raise Unsupported('to_digit radix')
    return SOME(c - 48) if B(it, zand(c >= 48, c <= 57)) else NONE()
@model(r'std::char::methods::<impl char>::(to_ascii_uppercase|to_ascii_lowercase)', True)
def m_char_case(it, callee, c):
    c = deref_all(c); up = 'upper' in callee
    lo, hi, d = (97, 122, -32) if up else (65, 90, 32)
    return c + d if B(it, zand(c >= lo, c <= hi)) else c
reg(r'<(&str|&std::string::String) as std::convert::Into<std::boxed::Box<str>>>::into', lambda it, s: SStr(deref_all(s).chars))
reg(r'<char as std::clone::Clone>::clone', lambda it, c: deref_all(c))

# ---------------------------------------------------------------- Vec / slices / arrays
reg(r'std::vec::Vec::<.*>::(new|with_capacity)', lambda it, *a: [])
reg(r'<std::vec::Vec<.*> as std::default::Default>::default', lambda it: [])
reg(r'thin_vec::ThinVec::<.*>::(new|with_capacity)', lambda it, *a: [])
reg(r'<thin_vec::ThinVec<.*> as std::default::Default>::default', lambda it: [])
@model(r'(std::vec::Vec|thin_vec::ThinVec)::<.*>::push')
def m_vec_push(it, v, x): deref_all(v).append(x); return []
@model(r'(std::vec::Vec|thin_vec::ThinVec)::<.*>::pop')
def m_vec_pop(it, v):
    l = deref_all(v); return SOME(l.pop()) if l else NONE()
@model(r'(std::vec::Vec|thin_vec::ThinVec)::<.*>::insert')
def m_vec_insert(it, v, i, x):
    if not isinstance(i, int): raise Unsupported('symbolic Vec::insert index')
    l = deref_all(v)
    if i > len(l): raise Panic('insertion index out of bounds')
    l.insert(i, x); return []
@model(r'(std::vec::Vec|thin_vec::ThinVec)::<.*>::remove')
def m_vec_remove(it, v, i):
    if not isinstance(i, int): raise Unsupported('symbolic Vec::remove index')
    l = deref_all(v)
    if i >= len(l): raise Panic('removal index out of bounds')
    return l.pop(i)
@model(r'(std::vec::Vec|thin_vec::ThinVec)::<.*>::clear')
def m_vec_clear(it, v): deref_all(v)[:] = []; return []
@model(r'(std::vec::Vec|thin_vec::ThinVec)::<.*>::truncate')
def m_vec_trunc(it, v, n): del deref_all(v)[n:]; return []
@model(r'(std::vec::Vec|thin_vec::ThinVec)::<.*>::retain(_mut)?::<.*>')
def m_vec_retain(it, v, clo):
    r = root_ref(v); l = r.get(); keep = []
    for i in range(len(l)):
        if B(it, it.call_closure(clo, Ref(r.box, r.path + (i,)))): keep.append(l[i])
    l[:] = keep; return []
@model(r'(std::vec::Vec|thin_vec::ThinVec)::<.*>::(append)')
def m_vec_append(it, v, w):
    deref_all(v).extend(deref_all(w)); deref_all(w)[:] = []; return []
@model(r'(std::vec::Vec|thin_vec::ThinVec)::<.*>::(extend_from_slice)')
def m_vec_extend_slice(it, v, w): deref_all(v).extend(list(deref_all(w))); return []
@model(r'<(std::vec::Vec|thin_vec::ThinVec)<.*> as std::iter::Extend<.*>>::extend::<.*>')
def m_vec_extend(it, v, src):
    s = deref_all(src)
    items = rest(s) if isinstance(s, PyIter) else list(s)
    deref_all(v).extend([deref_all(x) if isinstance(x, Ref) and not isinstance(deref_all(x), (Adt, list, SStr)) else x for x in items]); return []
reg(r'(std::vec::Vec|thin_vec::ThinVec)::<.*>::len', lambda it, v: len(deref_all(v)))
reg(r'(std::vec::Vec|thin_vec::ThinVec)::<.*>::is_empty', lambda it, v: len(deref_all(v)) == 0)
reg(r'core::slice::<impl \[.*\]>::(len)', lambda it, v: len(deref_all(v)))
reg(r'core::slice::<impl \[.*\]>::(is_empty)', lambda it, v: len(deref_all(v)) == 0)
reg(r'<(std::vec::Vec|thin_vec::ThinVec)<.*> as std::ops::Deref(Mut)?>::deref(_mut)?', lambda it, v: v)
reg(r'(std::vec::Vec|thin_vec::ThinVec)::<.*>::(as_slice|as_mut_slice)', lambda it, v: v)
reg(r'<(std::vec::Vec|thin_vec::ThinVec)<.*> as std::convert::AsRef<\[.*\]>>::as_ref', lambda it, v: v)
reg(r'<\[.*\] as std::convert::AsRef<\[.*\]>>::as_ref', lambda it, v: v)
reg(r'std::slice::<impl \[.*\]>::to_vec', lambda it, sl: [it.clone(x) for x in deref_all(sl)])
reg(r'std::slice::<impl \[.*\]>::into_vec', lambda it, b: list(deref_all(b.cell.v) if isinstance(b, BoxPtr) else deref_all(b)))
reg(r'std::vec::from_elem::<.*>', lambda it, e, n: [it.clone(e) for _ in range(n)])
@model(r'<(?:std::vec::Vec|thin_vec::ThinVec)<.*> as std::ops::Index(?:Mut)?<usize>>::index(?:_mut)?')
def m_vec_index(it, v, i):
    lst = deref_all(v); r = root_ref(v)
    if isinstance(i, int):
        if not 0 <= i < len(lst): raise Panic('index out of bounds: the len is %d but the index is %d' % (len(lst), i))
        return Ref(r.box, r.path + (i,))
    for k in range(len(lst)):
        if it.ctx.branch(i == k): return Ref(r.box, r.path + (k,))
    raise Panic('index out of bounds')
@model(r'<(?:std::vec::Vec<.*>|\[.*\]) as std::ops::Index(?:Mut)?<std::ops::Range(?:From|To|Full|Inclusive)?(?:<usize>)?>>::index(?:_mut)?', True)
def m_slice_range(it, callee, v, rng):
    lst = deref_all(v); f = rng.fields
    if 'RangeFull' in callee: return v
    if 'RangeFrom' in callee: a, b = f[0], len(lst)
    elif 'RangeTo' in callee: a, b = 0, f[0]
    elif 'RangeInclusive' in callee: a, b = f[0], f[1] + 1
    else: a, b = f[0], f[1]
    if not (isinstance(a, int) and isinstance(b, int)): raise Unsupported('symbolic slice range')
    if a > b: raise Panic('slice index starts at %d but ends at %d' % (a, b))
    if b > len(lst): raise Panic('range end index %d out of range for slice of length %d' % (b, len(lst)))
    return Ref(Box_(SliceView(root_ref(v), a, b)))
class SliceView(list):
    """sub-slice sharing storage with its parent list (writes go through)"""
    def __init__(self, parent, a, b):
        super().__init__(parent.get()[a:b]); self.parent, self.a = parent, a
    def __setitem__(self, i, v):
        super().__setitem__(i, v); self.parent.get()[self.a + i] = v
@model(r'core::slice::<impl \[.*\]>::(get|get_mut)::<usize>')
def m_slice_get(it, sl, idx):
    lst = deref_all(sl); r = root_ref(sl)
    if isinstance(idx, int):
        return SOME(Ref(r.box, r.path + (idx,))) if 0 <= idx < len(lst) else NONE()
    for k in range(len(lst)):
        if it.ctx.branch(idx == k): return SOME(Ref(r.box, r.path + (k,)))
    return NONE()
reg(r'core::slice::<impl \[.*\]>::(iter|iter_mut)', lambda it, sl: PyIter(elem_refs(sl)))
reg(r'core::slice::<impl \[.*\]>::(first|first_mut)', lambda it, sl: SOME(elem_refs(sl)[0]) if deref_all(sl) else NONE())
reg(r'core::slice::<impl \[.*\]>::(last|last_mut)', lambda it, sl: SOME(elem_refs(sl)[-1]) if deref_all(sl) else NONE())
@model(r'core::slice::<impl \[.*\]>::(chunks_exact|chunks_exact_mut|chunks_mut)', True)
def m_chunks_exact(it, callee, sl, n):
    if not isinstance(n, int) or n == 0: raise Unsupported('chunk size')
    r = root_ref(sl) if isinstance(sl, Ref) else Ref(Box_(sl)); total = len(r.get())
    end = total - total % n if 'exact' in callee else total
    return PyIter([Ref(Box_(SliceView(r, a, min(a + n, total)))) for a in range(0, end, n)])
@model(r'core::slice::<impl \[.*\]>::chunks')
def m_chunks(it, sl, n):
    if not isinstance(n, int) or n == 0: raise Panic('chunk size must be non-zero') if n == 0 else Unsupported('symbolic chunk size')
    r = root_ref(sl) if isinstance(sl, Ref) else Ref(Box_(sl)); total = len(r.get())
    return PyIter([Ref(Box_(SliceView(r, a, min(a + n, total)))) for a in range(0, total, n)])
@model(r'core::slice::<impl \[.*\]>::contains')
def m_slice_contains(it, sl, x):
    xv = deref_all(x)
    for e in deref_all(sl):
        if isinstance(e, SStr):
            if str_eq(it, e, xv): return True
        elif B(it, deref_all(e) == xv): return True
    return False
@model(r'core::slice::<impl \[.*\]>::copy_from_slice')
def m_copy_from_slice(it, dst, src):
    d = deref_all(dst); s = deref_all(src)
    if len(d) != len(s): raise Panic('source slice length does not match destination')
    for i, x in enumerate(s): d[i] = x
    return []
reg(r'<.(char|u8|&str|u32); .+. as std::ops::Index<std::ops::RangeFull>>::index', lambda it, a, r: a)
reg(r'core::array::<impl std::ops::Index<.*> for \[.*\]>::index', lambda it, a, r: m_slice_range(it, 'RangeFull' if not getattr(r, 'fields', None) else 'Range', a, r) if isinstance(r, Adt) else m_vec_index(it, a, r))
reg(r'core::array::<impl std::iter::IntoIterator for &(mut )?\[.*\]>::into_iter', lambda it, a: PyIter(elem_refs(a)))
reg(r'<\[.*; \d+\] as std::iter::IntoIterator>::into_iter', lambda it, a: PyIter(list(a)))
@model(r'(?:core|std|alloc)::slice::<impl \[.*\]>::(sort_by|sort_unstable_by)::<.*>')
def m_sort_by(it, sl, clo):
    """stable insertion sort driven by the comparator closure (forks on symbolic comparisons)"""
    lst = deref_all(sl); out = []
    for x in list(lst):
        k = len(out)
        while k > 0:
            o = it.call_closure(clo, Ref(Box_(out[k - 1])), Ref(Box_(x)))
            v = o.variant if isinstance(o, Adt) else o
            if B(it, v == 1) if not isinstance(v, int) else v == 1: k -= 1
            else: break
        out.insert(k, x)
    lst[:] = out
    return []
@model(r'(?:core|std|alloc)::slice::<impl \[.*\]>::(sort|sort_unstable)')
def m_sort(it, sl):
    lst = deref_all(sl); out = []
    from .containers import key_lt
    for x in list(lst):
        k = len(out)
        while k > 0 and key_lt(it, x, out[k - 1]): k -= 1
        out.insert(k, x)
    lst[:] = out
    return []
@model(r'(?:core|std|alloc)::slice::<impl \[.*\]>::(sort_by_key|sort_unstable_by_key)::<.*>')
def m_sort_by_key(it, sl, clo):
    lst = deref_all(sl); out = []
    from .containers import key_lt
    for x in list(lst):
        kx = it.call_closure(clo, Ref(Box_(x))); k = len(out)
        while k > 0 and key_lt(it, kx, out[k - 1][0]): k -= 1
        out.insert(k, (kx, x))
    lst[:] = [x for _, x in out]
    return []
# ---------------------------------------------------------------- iterators
_IT = r'<.* as std::iter::Iterator>::'
@model(r'<.* as std::iter::IntoIterator>::into_iter')
def m_into_iter(it, x):
    d = deref_all(x)
    if isinstance(d, PyIter): return x if not isinstance(x, Ref) else d
    k = adt_kind(d)
    if k in ('some', 'none'): return PyIter([d.fields[0]] if k == 'some' else [])          # Option as an iterator of zero or one item
    if k in ('ok', 'err'): return PyIter([d.fields[0]] if k == 'ok' else [])
    if isinstance(d, Adt): return x            # ranges
    if isinstance(d, list): return PyIter(elem_refs(x)) if isinstance(x, Ref) else PyIter(x)
    if hasattr(d, 'into_iter'): return d.into_iter(it, x)
    raise Unsupported('into_iter of %r' % (d,))
def range_next(it, r):
    rg = deref_all(r)
    if rg.ty == 'incl' or len(rg.fields) == 3:
        if rg.fields[2]: return NONE()
        if B(it, rg.fields[0] < rg.fields[1]):
            v = rg.fields[0]; rg.fields[0] = v + 1; return SOME(v)
        if B(it, rg.fields[0] == rg.fields[1]):
            rg.fields[2] = True; return SOME(rg.fields[0])
        rg.fields[2] = True; return NONE()
    if B(it, rg.fields[0] < rg.fields[1]):
        v = rg.fields[0]; rg.fields[0] = v + 1; return SOME(v)
    return NONE()
def materialize(it, x, limit=4096):
    d = deref_all(x)
    if isinstance(d, Adt):
        out = []
        while True:
            n = range_next(it, d)
            if n.variant == 0: return PyIter(out)
            out.append(n.fields[0])
            if len(out) > limit: raise Budget('range iteration longer than %d' % limit)
    return it_of(d)
@model(_IT + r'next')
def m_next(it, r):
    d = deref_all(r)
    if isinstance(d, Adt): return range_next(it, d)
    pi = it_of(d)
    if pi.i < len(pi.items): pi.i += 1; return SOME(pi.items[pi.i - 1])
    return NONE()
reg(r'<.* as std::iter::DoubleEndedIterator>::next_back', lambda it, r: (lambda pi: SOME(pi.items.pop()) if len(pi.items) > pi.i else NONE())(it_of(r)))
@model(_IT + r'nth')
def m_nth(it, r, n):
    pi = it_of(r)
    if not isinstance(n, int): raise Unsupported('symbolic nth')
    pi.i = min(pi.i + n, len(pi.items))
    return m_next(it, pi)
reg(_IT + r'count', lambda it, c: len(rest(materialize(it, c))))
reg(_IT + r'last', lambda it, c: (lambda l: SOME(l[-1]) if l else NONE())(rest(materialize(it, c))))
reg(_IT + r'rev', lambda it, c: PyIter(rest(materialize(it, c))[::-1]))
reg(_IT + r'enumerate', lambda it, c: PyIter([[i, x] for i, x in enumerate(rest(materialize(it, c)))]))
reg(_IT + r'skip', lambda it, c, n: PyIter(rest(materialize(it, c))[n:]))
reg(_IT + r'take', lambda it, c, n: PyIter(rest(materialize(it, c))[:n]))
reg(_IT + r'step_by', lambda it, c, n: PyIter(rest(materialize(it, c))[::n]))
reg(_IT + r'peekable', lambda it, c: materialize(it, c))
reg(_IT + r'by_ref', lambda it, c: c)
def _copy_item(it, x):
    # Iterator<Item = &T>::copied/cloned gives T: exactly one reference level is removed (T may itself be a reference)
    if isinstance(x, Ref):
        v = x.get()
        return v if isinstance(v, Ref) else it.clone(v)
    return it.clone(x)
reg(_IT + r'(copied|cloned)', lambda it, c: PyIter([_copy_item(it, x) for x in rest(materialize(it, c))]))
reg(_IT + r'chain::<.*>', lambda it, a, b: PyIter(rest(materialize(it, a)) + rest(materialize(it, m_into_iter(it, b)))))
def _finite(it, x, n):
    """the first n items of a possibly unbounded range (start..)"""
    d = deref_all(x)
    if isinstance(d, Adt) and len(d.fields) == 1 and not isinstance(d, PyIter): return [d.fields[0] + k for k in range(n)]
    return None
def m_zip(it, a, b):
    bi = m_into_iter(it, b)
    fa, fb = _finite(it, a, 0), _finite(it, bi, 0)
    if fb is not None and fa is None:
        xs = rest(materialize(it, a)); return PyIter([[x, y] for x, y in zip(xs, _finite(it, bi, len(xs)))])
    if fa is not None and fb is None:
        ys = rest(materialize(it, bi)); return PyIter([[x, y] for x, y in zip(_finite(it, a, len(ys)), ys)])
    return PyIter([[x, y] for x, y in zip(rest(materialize(it, a)), rest(materialize(it, bi)))])
reg(_IT + r'zip::<.*>', m_zip)
@model(r"<std::iter::Peekable<.*>>::peek|std::iter::Peekable::<.*>::peek")
def m_peek(it, r):
    pi = it_of(r)
    return SOME(Ref(Box_(pi.items[pi.i]))) if pi.i < len(pi.items) else NONE()
@model(_IT + r'map::<.*>')
def m_map(it, itr, clo): return PyIter([it.call_closure(clo, x) for x in rest(materialize(it, itr))])
@model(_IT + r'for_each::<.*>')
def m_for_each(it, itr, clo):
    for x in rest(materialize(it, itr)): it.call_closure(clo, x)
    return []
@model(_IT + r'filter::<.*>')
def m_filter(it, itr, clo):
    return PyIter([x for x in rest(materialize(it, itr)) if B(it, it.call_closure(clo, Ref(Box_(x))))])
@model(_IT + r'filter_map::<.*>')
def m_filter_map(it, itr, clo):
    out = []
    for x in rest(materialize(it, itr)):
        r = it.call_closure(clo, x)
        if r.variant == 1: out.append(r.fields[0])
    return PyIter(out)
@model(_IT + r'flat_map::<.*>')
def m_flat_map(it, itr, clo):
    out = []
    for x in rest(materialize(it, itr)):
        out.extend(rest(materialize(it, m_into_iter(it, it.call_closure(clo, x)))))
    return PyIter(out)
@model(_IT + r'flatten')
def m_flatten(it, itr):
    out = []
    for x in rest(materialize(it, itr)):
        d = deref_all(x)
        k = adt_kind(d)
        if k is not None:
            if k in ('some', 'ok'): out.append(d.fields[0])
        else: out.extend(rest(materialize(it, m_into_iter(it, x))))
    return PyIter(out)
@model(_IT + r'(take_while|skip_while)::<.*>', True)
def m_take_while(it, callee, itr, clo):
    xs = rest(materialize(it, itr)); k = 0
    while k < len(xs) and B(it, it.call_closure(clo, Ref(Box_(xs[k])))): k += 1
    return PyIter(xs[:k] if 'take_while' in callee else xs[k:])
@model(_IT + r'any::<.*>')
def m_any(it, itr, clo):
    pi = materialize(it, itr)
    while pi.i < len(pi.items):
        x = pi.items[pi.i]; pi.i += 1
        if B(it, it.call_closure(clo, x)): return True
    return False
@model(_IT + r'all::<.*>')
def m_all(it, itr, clo):
    pi = materialize(it, itr)
    while pi.i < len(pi.items):
        x = pi.items[pi.i]; pi.i += 1
        if not B(it, it.call_closure(clo, x)): return False
    return True
@model(_IT + r'find::<.*>')
def m_iter_find(it, itr, clo):
    pi = materialize(it, itr)
    while pi.i < len(pi.items):
        x = pi.items[pi.i]; pi.i += 1
        if B(it, it.call_closure(clo, Ref(Box_(x)))): return SOME(x)
    return NONE()
@model(_IT + r'find_map::<.*>')
def m_find_map(it, itr, clo):
    pi = materialize(it, itr)
    while pi.i < len(pi.items):
        x = pi.items[pi.i]; pi.i += 1
        r = it.call_closure(clo, x)
        if r.variant == 1: return r
    return NONE()
@model(_IT + r'position::<.*>')
def m_position(it, itr, clo):
    pi = materialize(it, itr); k = 0
    while pi.i < len(pi.items):
        x = pi.items[pi.i]; pi.i += 1
        if B(it, it.call_closure(clo, x)): return SOME(k)
        k += 1
    return NONE()
@model(_IT + r'fold::<.*>')
def m_fold(it, itr, init, clo):
    acc = init
    for x in rest(materialize(it, itr)): acc = it.call_closure(clo, acc, x)
    return acc
@model(_IT + r'sum::<(.*)>', True)
def m_sum(it, callee, itr):
    t = 0; ty = re.search(r'sum::<(.*)>$', callee).group(1)
    for x in rest(materialize(it, itr)):
        t = t + deref_all(x)
        if ty in INT_RANGE and not B(it, in_range(t, ty)): raise Panic('attempt to add with overflow')
    return t
@model(_IT + r'(max|min)', True)
def m_iter_max(it, callee, itr):
    xs = [deref_all(x) for x in rest(materialize(it, itr))]
    if not xs: return NONE()
    best = xs[0]
    for x in xs[1:]:
        if callee.endswith('max'): best = x if B(it, x >= best) else best
        else: best = x if B(it, x < best) else best
    return SOME(best)
@model(_IT + r'(max_by_key|min_by_key|max_by|min_by)::<.*>')
def m_iter_max_by(it, itr, clo): raise Unsupported('max_by')
reg(_IT + r'collect::<(std::vec::Vec|thin_vec::ThinVec)<.*>>', lambda it, x: list(rest(materialize(it, x))))
@model(_IT + r'collect::<std::string::String>')
def m_collect_string(it, x):
    out = []
    for e in rest(materialize(it, x)):
        e = deref_all(e)
        if isinstance(e, SStr): out.extend(e.chars)
        else: out.append(e)
    return SStr(out)
@model(r'std::iter::successors::<.*>')
def m_successors(it, first, clo):
    out = []; cur = first
    while cur.variant == 1:
        v = cur.fields[0]; out.append(v)
        if len(out) > 64: raise Budget('successors longer than 64')
        cur = it.call_closure(clo, Ref(Box_(v)))
    return PyIter(out)
reg(r'std::iter::once::<.*>', lambda it, v: PyIter([v]))
reg(r'std::iter::empty::<.*>', lambda it: PyIter([]))
reg(r'std::iter::repeat::<.*>', None)
@model(r'std::ops::(RangeInclusive|Range)::<.*>::contains::<.*>', True)
def m_range_contains(it, callee, r, x):
    f = deref_all(r).fields; x = deref_all(x)
    if 'RangeInclusive' in callee: return zand(f[0] <= x, x <= f[1])
    return zand(f[0] <= x, x < f[1])
reg(r'std::ops::RangeInclusive::<.*>::new', lambda it, a, b: Adt(0, [a, b, False], 'incl'))
reg(r'<(std::vec::IntoIter|std::slice::Iter|std::slice::IterMut|std::str::Chars)<.*> as std::iter::ExactSizeIterator>::len', lambda it, c: len(it_of(c).items) - it_of(c).i)

# ---------------------------------------------------------------- regex (fancy_regex / regex) by model
class RegexObj:
    def __init__(self, pattern): self.pattern = pattern
class CapsObj:
    def __init__(self, text, caps): self.text, self.caps = text, caps
class MatchObj:
    def __init__(self, text, s, e): self.text, self.s, self.e = text, s, e
reg(r'(fancy_regex|regex)::Regex::new', lambda it, p: OK(RegexObj(pstr(p))))
def _wrapres(callee, v): return OK(v) if callee.startswith('fancy_regex') else v
@model(r'(fancy_regex|regex)::Regex::captures', True)
def m_captures(it, callee, rxr, s):
    text = deref_all(s).chars
    r = RX.search(it.ctx, deref_all(rxr).pattern, text)
    return _wrapres(callee, SOME(CapsObj(text, r)) if r is not None else NONE())
@model(r'(fancy_regex|regex)::Regex::is_match', True)
def m_is_match(it, callee, rxr, s):
    return _wrapres(callee, RX.search(it.ctx, deref_all(rxr).pattern, deref_all(s).chars) is not None)
@model(r'(fancy_regex|regex)::Regex::find', True)
def m_rx_find(it, callee, rxr, s):
    text = deref_all(s).chars
    r = RX.search(it.ctx, deref_all(rxr).pattern, text)
    return _wrapres(callee, SOME(MatchObj(text, *r[0])) if r is not None else NONE())
@model(r"(fancy_regex|regex)::Captures::<'_>::get")
def m_caps_get(it, c, i):
    co = deref_all(c)
    if i < len(co.caps) and co.caps[i] is not None: return SOME(MatchObj(co.text, *co.caps[i]))
    return NONE()
@model(r"(fancy_regex|regex)::Captures::<'_>::len")
def m_caps_len(it, c): return len(deref_all(c).caps)
@model(r"(fancy_regex|regex)::Captures::<'_>::iter")
def m_caps_iter(it, c):
    co = deref_all(c)
    return PyIter([SOME(MatchObj(co.text, *g)) if g is not None else NONE() for g in co.caps])
reg(r"(fancy_regex|regex)::Match::<'_>::as_str", lambda it, m: Ref(Box_(SStr(deref_all(m).text[deref_all(m).s:deref_all(m).e]))))
def _boff(it, text, i): return sum(utf8_len_of(it, c) for c in text[:i])
reg(r"(fancy_regex|regex)::Match::<'_>::start", lambda it, m: _boff(it, deref_all(m).text, deref_all(m).s))
reg(r"(fancy_regex|regex)::Match::<'_>::end", lambda it, m: _boff(it, deref_all(m).text, deref_all(m).e))
@model(r"<(fancy_regex|regex)::Captures<'_> as std::ops::Index<usize>>::index")
def m_caps_index(it, c, i):
    co = deref_all(c)
    if i < len(co.caps) and co.caps[i] is not None: return Ref(Box_(SStr(co.text[co.caps[i][0]:co.caps[i][1]])))
    raise Panic('no group at index %d' % i)
@model(r'(fancy_regex|regex)::Regex::(replace_all|replace)::<&str>', True)
def m_rx_replace(it, callee, rxr, s, rep):
    text = deref_all(s).chars; pat = deref_all(rxr).pattern; rep = deref_all(rep).chars
    if any((not isinstance(c, int)) or c == 36 for c in rep): raise Unsupported('regex replacement with $ or symbolic chars')
    out, pos, all_ = [], 0, 'replace_all' in callee
    while pos <= len(text):
        r = RX.search(it.ctx, pat, text, pos)
        if r is None: break
        s0, e0 = r[0]
        out += text[pos:s0] + rep
        if e0 == s0:
            if s0 < len(text): out.append(text[s0])
            pos = s0 + 1
        else: pos = e0
        if not all_: break
    out += text[pos:]
    return Adt(1, [SStr(out)])      # Cow::Owned

# more std idioms (round 2)
from . import models_extra  # noqa: E402,F401
