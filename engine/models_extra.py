"""More std contract models (round 2): idioms that behaviour-preserving refactorings of the checked code use.
Imported at the end of models.py; everything registers into the same REG list (first match wins, so nothing here shadows an
existing model)."""
import re
import z3
from .core import *
from .models import (reg, model, REG, B, zand, zor, it_of, rest, elem_refs, materialize, m_into_iter, m_next, utf8_len_of,
                     byte_offset_to_index, find_sub, is_ws, INT_RANGE, in_range, int_ty_of, PyIter, box_ref, default_of)

_IT = r'<.* as std::iter::Iterator>::'
_INT = r'(u8|u16|u32|u64|usize|i8|i16|i32|i64|isize)'
# ---------------------------------------------------------------- Option / Result
reg(r'std::option::Option::<.*>::or', lambda it, a, b: a if a.variant == 1 else b)
reg(r'std::option::Option::<.*>::and::<.*>', lambda it, a, b: b if a.variant == 1 else NONE())
reg(r'std::option::Option::<.*>::xor', lambda it, a, b: a if (a.variant == 1 and b.variant == 0) else (b if (a.variant == 0 and b.variant == 1) else NONE()))
@model(r'std::option::Option::<.*>::or_else::<.*>')
def m_opt_or_else(it, o, clo): return o if o.variant == 1 else it.call_closure(clo)
@model(r'std::option::Option::<.*>::map_or_else::<.*>')
def m_opt_map_or_else(it, o, d, f): return it.call_closure(f, o.fields[0]) if o.variant == 1 else it.call_closure(d)
@model(r'std::option::Option::<.*>::ok_or_else::<.*>')
def m_opt_ok_or_else(it, o, clo): return OK(o.fields[0]) if o.variant == 1 else ERR(it.call_closure(clo))
@model(r'std::option::Option::<.*>::(is_none_or)::<.*>')
def m_opt_is_none_or(it, o, clo): return True if o.variant == 0 else B(it, it.call_closure(clo, o.fields[0]))
reg(r'std::option::Option::<.*>::zip::<.*>', lambda it, a, b: SOME([a.fields[0], b.fields[0]]) if a.variant == 1 and b.variant == 1 else NONE())
reg(r'std::option::Option::<.*>::(iter|into_iter)', lambda it, o: PyIter([deref_all(o).fields[0]] if deref_all(o).variant == 1 else []))
@model(r'std::option::Option::<.*>::replace')
def m_opt_replace(it, r, v):
    old = r.get(); r.set(SOME(v)); return old
@model(r'std::option::Option::<.*>::inspect::<.*>')
def m_opt_inspect(it, o, clo):
    if o.variant == 1: it.call_closure(clo, Ref(Box_(o.fields[0])))
    return o
@model(r'std::result::Result::<.*>::and_then::<.*>')
def m_res_and_then(it, r, clo): return it.call_closure(clo, r.fields[0]) if r.variant == 0 else r
@model(r'std::result::Result::<.*>::or_else::<.*>')
def m_res_or_else(it, r, clo): return r if r.variant == 0 else it.call_closure(clo, r.fields[0])
@model(r'std::result::Result::<.*>::unwrap_or_else::<.*>')
def m_res_unwrap_or_else(it, r, clo): return r.fields[0] if r.variant == 0 else it.call_closure(clo, r.fields[0])
@model(r'std::result::Result::<.*>::map_or::<.*>')
def m_res_map_or(it, r, d, clo): return it.call_closure(clo, r.fields[0]) if r.variant == 0 else d
@model(r'std::result::Result::<.*>::map_or_else::<.*>')
def m_res_map_or_else(it, r, d, f): return it.call_closure(f, r.fields[0]) if r.variant == 0 else it.call_closure(d, r.fields[0])
reg(r'std::result::Result::<.*>::err', lambda it, r: SOME(r.fields[0]) if r.variant == 1 else NONE())
reg(r'std::result::Result::<.*>::and::<.*>', lambda it, a, b: b if a.variant == 0 else a)
reg(r'std::result::Result::<.*>::or::<.*>', lambda it, a, b: a if a.variant == 0 else b)
@model(r'std::result::Result::<.*>::(is_ok_and|is_err_and)::<.*>', True)
def m_res_is_and(it, callee, r, clo):
    want = 0 if 'is_ok_and' in callee else 1
    return B(it, it.call_closure(clo, r.fields[0])) if r.variant == want else False
reg(r'std::result::Result::<.*>::(as_ref|as_mut)', lambda it, r: Adt(deref_all(r).variant, [Ref(r.box, r.path + ('f', 0)) if False else Ref(Box_(deref_all(r).fields[0]))]))
@model(r'std::result::Result::<.*>::(unwrap_err|expect_err)')
def m_res_unwrap_err(it, r, *a):
    if r.variant == 1: return r.fields[0]
    raise Panic('called `Result::unwrap_err()` on an `Ok` value')
# ---------------------------------------------------------------- char / u8
reg(r'<char as std::convert::From<u8>>::from', lambda it, b: b)
reg(r'<u32 as std::convert::From<char>>::from', lambda it, c: c)
reg(r'<(u64|usize|i64|u128) as std::convert::From<char>>::from', lambda it, c: c)
@model(r'<u8 as std::convert::TryFrom<char>>::try_from')
def m_u8_try_from_char(it, c): return OK(c) if B(it, c < 256) else ERR('TryFromCharError')
reg(r'std::char::methods::<impl char>::len_utf8', lambda it, c: utf8_len_of(it, c))
reg(r'std::char::methods::<impl char>::is_ascii', lambda it, c: deref_all(c) < 128)
def _cls(lo_hi):
    def f(it, c):
        c = deref_all(c)
        return zor(*[zand(c >= a, c <= b) for a, b in lo_hi])
    return f
for _nm, _r in (('uppercase', [(65, 90)]), ('lowercase', [(97, 122)]), ('alphanumeric', [(48, 57), (65, 90), (97, 122)]), ('hexdigit', [(48, 57), (65, 70), (97, 102)]),
                ('punctuation', [(33, 47), (58, 64), (91, 96), (123, 126)]), ('whitespace', [(9, 10), (12, 13), (32, 32)]), ('graphic', [(33, 126)]), ('control', [(0, 31), (127, 127)]),
                ('alphabetic', [(65, 90), (97, 122)]), ('digit', [(48, 57)])):
    reg(r'(?:std::char::methods::<impl char>|core::num::<impl u8>)::is_ascii_%s' % _nm, _cls(_r))
@model(r'core::num::<impl u8>::(to_ascii_uppercase|to_ascii_lowercase)', True)
def m_u8_case(it, callee, c):
    c = deref_all(c); up = 'upper' in callee; lo, hi, d = (97, 122, -32) if up else (65, 90, 32)
    if isinstance(c, int): return c + d if lo <= c <= hi else c
    return c + d if B(it, zand(c >= lo, c <= hi)) else c
@model(r'std::char::methods::<impl char>::is_digit')
def m_is_digit(it, c, radix):
    if not isinstance(radix, int) or radix > 36: raise Unsupported('is_digit radix')
    c = deref_all(c); conds = [zand(c >= 48, c <= 48 + min(radix, 10) - 1)]
    if radix > 10: conds += [zand(c >= 97, c <= 97 + radix - 11), zand(c >= 65, c <= 65 + radix - 11)]
    return zor(*conds)
@model(r'(?:std::char::methods::<impl char>|core::num::<impl u8>)::eq_ignore_ascii_case')
def m_eq_ic(it, a, b):
    a, b = deref_all(a), deref_all(b)
    fold = lambda c: (c + 32 if 65 <= c <= 90 else c) if isinstance(c, int) else z3.If(z3.And(c >= 65, c <= 90), c + 32, c)
    return fold(a) == fold(b)
# ---------------------------------------------------------------- integers
def _int_model(name, fn):
    @model(r'core::num::<impl ' + _INT + r'>::' + name, True)
    def m(it, callee, *a):
        return fn(it, int_ty_of(callee), *[deref_all(x) for x in a])
    return m
def _sat(it, ty, r):
    lo, hi = INT_RANGE[ty]
    if isinstance(r, int): return max(lo, min(hi, r))
    return lo if B(it, r < lo) else (hi if B(it, r > hi) else r)
def _chk(it, ty, r): return SOME(r) if B(it, in_range(r, ty)) else NONE()
def _wrap(it, ty, r):
    lo, hi = INT_RANGE[ty]
    if isinstance(r, int): return (r - lo) % (hi - lo + 1) + lo
    if B(it, in_range(r, ty)): return r
    q, m_ = it.ctx.divmod(r - lo, hi - lo + 1); return m_ + lo
_int_model('saturating_add', lambda it, ty, a, b: _sat(it, ty, a + b))
_int_model('saturating_mul', lambda it, ty, a, b: _sat(it, ty, a * b))
_int_model('checked_mul', lambda it, ty, a, b: _chk(it, ty, a * b))
_int_model('wrapping_add', lambda it, ty, a, b: _wrap(it, ty, a + b))
_int_model('wrapping_sub', lambda it, ty, a, b: _wrap(it, ty, a - b))
_int_model('wrapping_mul', lambda it, ty, a, b: _wrap(it, ty, a * b))
def _absdiff(it, ty, a, b):
    if isinstance(a, int) and isinstance(b, int): return abs(a - b)
    return a - b if B(it, a >= b) else b - a
_int_model('abs_diff', _absdiff)
def _abs(it, ty, a):
    if isinstance(a, int): return abs(a)
    return a if B(it, a >= 0) else -a
_int_model('abs', _abs)
_int_model('unsigned_abs', _abs)
def _signum(it, ty, a):
    if isinstance(a, int): return (a > 0) - (a < 0)
    return 1 if B(it, a > 0) else (0 if B(it, a == 0) else -1)
_int_model('signum', _signum)
def _divc(it, ty, a, b):
    if isinstance(b, int) and b == 0: return NONE()
    if not isinstance(b, int): raise Unsupported('checked_div by a symbolic divisor')
    if isinstance(a, int): return SOME(int(a / b) if (a < 0) != (b < 0) else a // b)
    if b < 0 or B(it, a < 0): raise Unsupported('checked_div with negative operands')
    return SOME(it.ctx.divmod(a, b)[0])
_int_model('checked_div', _divc)
def _clamp(it, ty, v, lo, hi):
    return lo if B(it, v < lo) else (hi if B(it, v > hi) else v)
_int_model('clamp', _clamp)
reg(r'<' + _INT + r' as std::cmp::Ord>::clamp', lambda it, v, lo, hi: _clamp(it, None, deref_all(v), deref_all(lo), deref_all(hi)))
@model(r'<(u8|u16|u64|i64|i8|i16|isize) as std::cmp::Ord>::(max|min)', True)
def m_ord_maxmin(it, callee, a, b):
    a, b = deref_all(a), deref_all(b)
    if callee.endswith('max'): return b if B(it, b >= a) else a
    return a if B(it, a <= b) else b
# ---------------------------------------------------------------- String / str
def _sv(s): return deref_all(s)
@model(r'std::string::String::insert')
def m_string_insert(it, s, idx, ch):
    sv = _sv(s); i = byte_offset_to_index(it, sv, idx); sv.chars.insert(i, ch); return []
@model(r'std::string::String::insert_str')
def m_string_insert_str(it, s, idx, t):
    sv = _sv(s); i = byte_offset_to_index(it, sv, idx); sv.chars[i:i] = list(_sv(t).chars); return []
@model(r'std::string::String::remove')
def m_string_remove(it, s, idx):
    sv = _sv(s); i = byte_offset_to_index(it, sv, idx)
    if i >= len(sv.chars): raise Panic('cannot remove a char from the end of a string')
    return sv.chars.pop(i)
@model(r'std::string::String::pop')
def m_string_pop(it, s):
    sv = _sv(s)
    return SOME(sv.chars.pop()) if sv.chars else NONE()
@model(r'std::string::String::truncate')
def m_string_truncate(it, s, n):
    sv = _sv(s)
    if isinstance(n, int) and n >= sum(utf8_len_of(it, c) for c in sv.chars): return []
    del sv.chars[byte_offset_to_index(it, sv, n):]; return []
@model(r'std::string::String::split_off')
def m_string_split_off(it, s, n):
    sv = _sv(s); i = byte_offset_to_index(it, sv, n); tail = sv.chars[i:]; del sv.chars[i:]; return SStr(tail)
@model(r'std::string::String::retain::<.*>')
def m_string_retain(it, s, clo):
    sv = _sv(s); sv.chars[:] = [c for c in list(sv.chars) if B(it, it.call_closure(clo, c))]; return []
@model(r'<std::string::String as std::iter::Extend<.*>>::extend::<.*>')
def m_string_extend(it, s, src):
    sv = _sv(s)
    for e in rest(materialize(it, m_into_iter(it, src))):
        e = deref_all(e)
        if isinstance(e, SStr): sv.chars.extend(e.chars)
        else: sv.chars.append(e)
    return []
@model(r'<std::string::String as std::iter::FromIterator<.*>>::from_iter::<.*>')
def m_string_from_iter(it, src):
    out = SStr([]); m_string_extend(it, Ref(Box_(out)), src); return out
@model(r'<std::string::String as std::fmt::Write>::write_str')
def m_string_write_str(it, s, t): _sv(s).chars.extend(_sv(t).chars); return OK([])
@model(r'<std::string::String as std::fmt::Write>::write_char')
def m_string_write_char(it, s, c): _sv(s).chars.append(c); return OK([])
reg(r'<std::string::String as std::ops::Add<&std::string::String>>::add', lambda it, s, t: SStr(_sv(s).chars + _sv(t).chars))
reg(r'<std::string::String as std::ops::AddAssign<&std::string::String>>::add_assign', lambda it, s, t: (_sv(s).chars.extend(_sv(t).chars), [])[1])
@model(r'core::str::<impl str>::split_at')
def m_str_split_at(it, s, n):
    sv = _sv(s); i = byte_offset_to_index(it, sv, n)
    return [Ref(Box_(SStr(sv.chars[:i]))), Ref(Box_(SStr(sv.chars[i:])))]
@model(r'core::str::<impl str>::split_at_checked')
def m_str_split_at_checked(it, s, n):
    try: return SOME(m_str_split_at(it, s, n))
    except Panic: return NONE()
reg(r'core::str::<impl str>::is_char_boundary', lambda it, s, n: (lambda sv: _is_boundary(it, sv, n))(_sv(s)))
def _is_boundary(it, sv, n):
    try: byte_offset_to_index(it, sv, n); return True
    except Panic: return False
def _byte_off(it, cs, i): return sum(utf8_len_of(it, c) for c in cs[:i])
@model(r'core::str::<impl str>::(find|rfind)::<(fn\(char\) -> bool \{.*\}|\{closure@.*\})>', True)
def m_str_find_pred(it, callee, s, clo):
    cs = _sv(s).chars; order = range(len(cs)) if '::find::' in callee else range(len(cs) - 1, -1, -1)
    for i in order:
        if B(it, it.call_closure(clo, cs[i])): return SOME(_byte_off(it, cs, i))
    return NONE()
@model(r'core::str::<impl str>::rfind::<(&str|char)>')
def m_str_rfind(it, s, pat):
    cs = _sv(s).chars; p = deref_all(pat); pc = p.chars if isinstance(p, SStr) else [p]
    for i in range(len(cs) - len(pc), -1, -1):
        if all(B(it, cs[i + k] == pc[k]) for k in range(len(pc))): return SOME(_byte_off(it, cs, i))
    return NONE()
@model(r'core::str::<impl str>::find::<(&\[char\]|\[char; \d+\]|&\[char; \d+\])>')
def m_str_find_set(it, s, pats):
    cs = _sv(s).chars; ps = list(deref_all(pats))
    for i, c in enumerate(cs):
        if B(it, zor(*[c == p_ for p_ in ps])): return SOME(_byte_off(it, cs, i))
    return NONE()
@model(r'core::str::<impl str>::eq_ignore_ascii_case')
def m_str_eq_ic(it, a, b):
    x, y = _sv(a).chars, _sv(b).chars
    if len(x) != len(y): return False
    return all(B(it, m_eq_ic(it, p, q)) for p, q in zip(x, y))
@model(r'core::str::<impl str>::(strip_prefix|strip_suffix)::<(fn\(char\) -> bool \{.*\}|\{closure@.*\})>', True)
def m_strip_pred(it, callee, s, clo):
    cs = _sv(s).chars
    if not cs: return NONE()
    if 'prefix' in callee: return SOME(Ref(Box_(SStr(cs[1:])))) if B(it, it.call_closure(clo, cs[0])) else NONE()
    return SOME(Ref(Box_(SStr(cs[:-1])))) if B(it, it.call_closure(clo, cs[-1])) else NONE()
@model(r'core::str::<impl str>::(splitn|rsplitn)::<(char|&str)>', True)
def m_splitn(it, callee, s, n, pat):
    from .models import split_on
    if not isinstance(n, int): raise Unsupported('symbolic splitn count')
    p = deref_all(pat); pc = p.chars if isinstance(p, SStr) else [p]
    parts = [x.chars for x in split_on(it, _sv(s).chars, pc)]
    if 'rsplitn' in callee:
        if n == 0: return PyIter([])
        while len(parts) > n: parts[0:2] = [parts[0] + pc + parts[1]]
        return PyIter([Ref(Box_(SStr(x))) for x in reversed(parts)])
    if n == 0: return PyIter([])
    while len(parts) > n: parts[-2:] = [parts[-2] + pc + parts[-1]]
    return PyIter([Ref(Box_(SStr(x))) for x in parts])
@model(r'core::str::<impl str>::rsplit::<(char|&str)>')
def m_rsplit(it, s, pat):
    from .models import split_on
    p = deref_all(pat); pc = p.chars if isinstance(p, SStr) else [p]
    return PyIter([Ref(Box_(x)) for x in reversed(split_on(it, _sv(s).chars, pc))])
@model(r'core::str::<impl str>::split::<(fn\(char\) -> bool \{.*\}|\{closure@.*\}|&\[char\]|\[char; \d+\]|&\[char; \d+\])>', True)
def m_split_pred(it, callee, s, pat):
    if 'closure' in callee or 'fn(' in callee: hit = lambda c: B(it, it.call_closure(pat, c))
    else:
        ps = list(deref_all(pat)); hit = lambda c: B(it, zor(*[c == p_ for p_ in ps]))
    out, cur = [], []
    for c in _sv(s).chars:
        if hit(c): out.append(cur); cur = []
        else: cur.append(c)
    out.append(cur)
    return PyIter([Ref(Box_(SStr(x))) for x in out])
@model(r'core::str::<impl str>::split_whitespace')
def m_split_ws(it, s):
    out, cur = [], []
    for c in _sv(s).chars:
        if B(it, is_ws(c)):
            if cur: out.append(cur); cur = []
        else: cur.append(c)
    if cur: out.append(cur)
    return PyIter([Ref(Box_(SStr(x))) for x in out])
@model(r'core::str::<impl str>::(to_ascii_lowercase|make_ascii_uppercase|make_ascii_lowercase)', True)
def m_str_ascii_case(it, callee, s):
    sv = _sv(s); up = 'upper' in callee; lo, hi, d = (97, 122, -32) if up else (65, 90, 32)
    out = [(c + d if lo <= c <= hi else c) if isinstance(c, int) else (c + d if B(it, zand(c >= lo, c <= hi)) else c) for c in sv.chars]
    if 'make_' in callee: sv.chars[:] = out; return []
    return SStr(out)
reg(r'core::str::<impl str>::matches::<char>', lambda it, s, ch: PyIter([Ref(Box_(SStr([c]))) for c in _sv(s).chars if B(it, c == ch)]))
# ---------------------------------------------------------------- slices / Vec
_SL = r'core::slice::<impl \[.*\]>::'
_VEC = r'(std::vec::Vec|thin_vec::ThinVec)::<.*>::'
class SliceOf(list):
    """a borrowed sub-slice materialised as a list of the element values (read-only use)"""
@model(_SL + r'(split_first|split_last)', True)
def m_split_first(it, callee, sl):
    refs = elem_refs(sl)
    if not refs: return NONE()
    if 'split_first' in callee: return SOME([refs[0], Ref(Box_([deref_all(r) if False else r.get() for r in refs[1:]]))])
    return SOME([refs[-1], Ref(Box_([r.get() for r in refs[:-1]]))])
@model(_SL + r'split_at')
def m_slice_split_at(it, sl, n):
    lst = deref_all(sl)
    if not isinstance(n, int): raise Unsupported('symbolic split_at')
    if n > len(lst): raise Panic('mid > len')
    return [Ref(Box_(list(lst[:n]))), Ref(Box_(list(lst[n:])))]
@model(_SL + r'get::<std::ops::Range(?:From|To|Inclusive|ToInclusive)?<usize>>', True)
def m_slice_get_range(it, callee, sl, rng):
    lst = deref_all(sl); f = [deref_all(x) for x in deref_all(rng).fields]
    if any(not isinstance(x, (int, bool)) for x in f): raise Unsupported('symbolic slice range')
    n = len(lst)
    if 'RangeFrom' in callee: a, b = f[0], n
    elif 'RangeToInclusive' in callee: a, b = 0, f[0] + 1
    elif 'RangeTo' in callee: a, b = 0, f[0]
    elif 'RangeInclusive' in callee: a, b = f[0], f[1] + 1
    else: a, b = f[0], f[1]
    if a > b or b > n: return NONE()
    return SOME(Ref(Box_(list(lst[a:b]))))
@model(_SL + r'(starts_with|ends_with)', True)
def m_slice_starts(it, callee, sl, pre):
    from .containers import key_eq
    a, b = deref_all(sl), deref_all(pre)
    if len(b) > len(a): return False
    xs = a[:len(b)] if 'starts' in callee else a[len(a) - len(b):]
    return all(key_eq(it, x, y) for x, y in zip(xs, b))
@model(_SL + r'(reverse)')
def m_slice_reverse(it, sl): deref_all(sl).reverse(); return []
@model(_SL + r'swap')
def m_slice_swap(it, sl, a, b):
    lst = deref_all(sl)
    if not (isinstance(a, int) and isinstance(b, int)): raise Unsupported('symbolic swap')
    lst[a], lst[b] = lst[b], lst[a]; return []
@model(_SL + r'fill')
def m_slice_fill(it, sl, v):
    lst = deref_all(sl)
    for i in range(len(lst)): lst[i] = it.clone(v)
    return []
@model(_SL + r'windows')
def m_windows(it, sl, n):
    lst = deref_all(sl)
    if not isinstance(n, int) or n == 0: raise Unsupported('windows size')
    return PyIter([Ref(Box_(list(lst[i:i + n]))) for i in range(0, max(0, len(lst) - n + 1))])
@model(_SL + r'concat::<.*>')
def m_slice_concat(it, sl):
    out = []
    for x in deref_all(sl): out.extend(deref_all(x))
    return out
@model(_SL + r'repeat')
def m_slice_repeat(it, sl, n):
    if not isinstance(n, int): raise Unsupported('symbolic repeat')
    return [it.clone(x) for _ in range(n) for x in deref_all(sl)]
@model(_SL + r'(binary_search)')
def m_binary_search(it, sl, key):
    from .containers import key_eq, key_lt
    lst = deref_all(sl); k = deref_all(key)
    for i, x in enumerate(lst):
        if key_eq(it, x, k): return OK(i)
        if key_lt(it, k, x): return ERR(i)
    return ERR(len(lst))
@model(_VEC + r'resize')
def m_vec_resize(it, v, n, val):
    lst = deref_all(v)
    if not isinstance(n, int): raise Unsupported('symbolic resize')
    if n <= len(lst): del lst[n:]
    else: lst.extend(it.clone(val) for _ in range(n - len(lst)))
    return []
@model(_VEC + r'resize_with::<.*>')
def m_vec_resize_with(it, v, n, clo):
    lst = deref_all(v)
    if not isinstance(n, int): raise Unsupported('symbolic resize')
    if n <= len(lst): del lst[n:]
    else: lst.extend(it.call_closure(clo) for _ in range(n - len(lst)))
    return []
@model(_VEC + r'swap_remove')
def m_vec_swap_remove(it, v, i):
    lst = deref_all(v)
    if not isinstance(i, int): raise Unsupported('symbolic swap_remove')
    if i >= len(lst): raise Panic('swap_remove index out of bounds')
    lst[i], lst[-1] = lst[-1], lst[i]; return lst.pop()
@model(_VEC + r'split_off')
def m_vec_split_off(it, v, n):
    lst = deref_all(v)
    if not isinstance(n, int): raise Unsupported('symbolic split_off')
    tail = lst[n:]; del lst[n:]; return tail
@model(_VEC + r'dedup')
def m_vec_dedup(it, v):
    from .containers import key_eq
    lst = deref_all(v); out = []
    for x in lst:
        if not out or not key_eq(it, out[-1], x): out.append(x)
    lst[:] = out; return []
@model(_VEC + r'drain::<std::ops::RangeFull>')
def m_vec_drain_full(it, v, rng):
    lst = deref_all(v); out = list(lst); del lst[:]; return PyIter(out)
@model(_VEC + r'drain::<std::ops::Range(?:From|To)?<usize>>', True)
def m_vec_drain(it, callee, v, rng):
    lst = deref_all(v); f = [deref_all(x) for x in deref_all(rng).fields]
    if any(not isinstance(x, int) for x in f): raise Unsupported('symbolic drain range')
    a, b = (f[0], len(lst)) if 'RangeFrom' in callee else ((0, f[0]) if 'RangeTo' in callee else (f[0], f[1]))
    if a > b or b > len(lst): raise Panic('drain range out of bounds')
    out = lst[a:b]; del lst[a:b]; return PyIter(out)
reg(_VEC + r'(into_boxed_slice|into_iter)', lambda it, v: v)
# ---------------------------------------------------------------- iterators
@model(_IT + r'rposition::<.*>')
def m_rposition(it, itr, clo):
    xs = rest(materialize(it, itr))
    for k in range(len(xs) - 1, -1, -1):
        if B(it, it.call_closure(clo, xs[k])): return SOME(k)
    return NONE()
@model(_IT + r'rfind::<.*>')
def m_rfind_it(it, itr, clo):
    xs = rest(materialize(it, itr))
    for x in reversed(xs):
        if B(it, it.call_closure(clo, Ref(Box_(x)))): return SOME(x)
    return NONE()
@model(r'std::iter::Peekable::<.*>::next_if::<.*>')
def m_next_if(it, r, clo):
    pi = it_of(r)
    if pi.i < len(pi.items) and B(it, it.call_closure(clo, Ref(Box_(pi.items[pi.i])))):
        pi.i += 1; return SOME(pi.items[pi.i - 1])
    return NONE()
@model(r'std::iter::Peekable::<.*>::next_if_eq::<.*>')
def m_next_if_eq(it, r, v):
    from .containers import key_eq
    pi = it_of(r)
    if pi.i < len(pi.items) and key_eq(it, pi.items[pi.i], deref_all(v)):
        pi.i += 1; return SOME(pi.items[pi.i - 1])
    return NONE()
@model(r'std::iter::Peekable::<.*>::peek_mut')
def m_peek_mut(it, r):
    pi = it_of(r)
    return SOME(Ref(Box_(pi.items[pi.i]))) if pi.i < len(pi.items) else NONE()
@model(r'std::iter::from_fn::<.*>')
def m_from_fn(it, clo):
    out = []
    while True:
        r = it.call_closure(clo)
        if r.variant != 1: return PyIter(out)
        out.append(r.fields[0])
        if len(out) > 4096: raise Budget('from_fn longer than 4096')
@model(_IT + r'map_while::<.*>')
def m_map_while(it, itr, clo):
    out = []
    for x in rest(materialize(it, itr)):
        r = it.call_closure(clo, x)
        if r.variant != 1: break
        out.append(r.fields[0])
    return PyIter(out)
@model(_IT + r'scan::<.*>')
def m_scan(it, itr, init, clo):
    st = Box_(init); out = []
    for x in rest(materialize(it, itr)):
        r = it.call_closure(clo, Ref(st), x)
        if r.variant != 1: break
        out.append(r.fields[0])
    return PyIter(out)
@model(_IT + r'inspect::<.*>')
def m_inspect(it, itr, clo):
    xs = rest(materialize(it, itr))
    for x in xs: it.call_closure(clo, Ref(Box_(x)))
    return PyIter(xs)
reg(_IT + r'fuse', lambda it, c: materialize(it, c))
@model(_IT + r'reduce::<.*>')
def m_reduce(it, itr, clo):
    xs = rest(materialize(it, itr))
    if not xs: return NONE()
    acc = xs[0]
    for x in xs[1:]: acc = it.call_closure(clo, acc, x)
    return SOME(acc)
@model(_IT + r'product::<(.*)>', True)
def m_product(it, callee, itr):
    t = 1; ty = re.search(r'product::<(.*)>$', callee).group(1)
    for x in rest(materialize(it, itr)):
        t = t * deref_all(x)
        if ty in INT_RANGE and not B(it, in_range(t, ty)): raise Panic('attempt to multiply with overflow')
    return t
@model(_IT + r'(max_by_key|min_by_key)::<.*>', True)
def m_max_by_key(it, callee, itr, clo):
    from .containers import key_lt
    xs = rest(materialize(it, itr))
    if not xs: return NONE()
    best, bk = xs[0], it.call_closure(clo, Ref(Box_(xs[0])))
    for x in xs[1:]:
        k = it.call_closure(clo, Ref(Box_(x)))
        if 'max_by_key' in callee:
            if not key_lt(it, k, bk): best, bk = x, k            # the last maximum wins
        elif key_lt(it, k, bk): best, bk = x, k                  # the first minimum wins
    return SOME(best)
@model(_IT + r'(max_by|min_by)::<.*>', True)
def m_max_by(it, callee, itr, clo):
    xs = rest(materialize(it, itr))
    if not xs: return NONE()
    best = xs[0]
    for x in xs[1:]:
        o = it.call_closure(clo, Ref(Box_(best)), Ref(Box_(x))); v = o.variant if isinstance(o, Adt) else o
        if 'max_by' in callee:
            if not (B(it, v == 1) if not isinstance(v, int) else v == 1): best = x
        elif (B(it, v == 1) if not isinstance(v, int) else v == 1): best = x
    return SOME(best)
@model(_IT + r'unzip::<.*>')
def m_unzip(it, itr):
    xs = rest(materialize(it, itr)); return [[deref_all(x)[0] for x in xs], [deref_all(x)[1] for x in xs]]
@model(_IT + r'partition::<.*>')
def m_partition(it, itr, clo):
    a, b = [], []
    for x in rest(materialize(it, itr)): (a if B(it, it.call_closure(clo, Ref(Box_(x)))) else b).append(x)
    return [a, b]
@model(_IT + r'collect::<std::option::Option<(std::vec::Vec|thin_vec::ThinVec)<.*>>>')
def m_collect_opt_vec(it, x):
    out = []
    for e in rest(materialize(it, x)):
        if e.variant != 1: return NONE()
        out.append(e.fields[0])
    return SOME(out)
@model(_IT + r'collect::<std::result::Result<(std::vec::Vec|thin_vec::ThinVec)<.*>, .*>>')
def m_collect_res_vec(it, x):
    out = []
    for e in rest(materialize(it, x)):
        if e.variant != 0: return e
        out.append(e.fields[0])
    return OK(out)
@model(_IT + r'collect::<std::option::Option<std::string::String>>')
def m_collect_opt_string(it, x):
    out = []
    for e in rest(materialize(it, x)):
        if e.variant != 1: return NONE()
        v = deref_all(e.fields[0]); out.extend(v.chars if isinstance(v, SStr) else [v])
    return SOME(SStr(out))
@model(_IT + r'collect::<std::boxed::Box<str>>')
def m_collect_box_str(it, x):
    from .models import m_collect_string
    return m_collect_string(it, x)
reg(_IT + r'collect::<std::boxed::Box<\[.*\]>>', lambda it, x: list(rest(materialize(it, x))))
reg(_IT + r'collect::<std::collections::VecDeque<.*>>', lambda it, x: list(rest(materialize(it, x))))
@model(_IT + r'(eq|ne)::<.*>', True)
def m_iter_eq(it, callee, a, b):
    from .containers import key_eq
    xs, ys = rest(materialize(it, a)), rest(materialize(it, m_into_iter(it, b)))
    same = len(xs) == len(ys) and all(key_eq(it, x, y) for x, y in zip(xs, ys))
    return same if callee.endswith('::eq') or '::eq::<' in callee else not same
@model(r'<(std::vec::IntoIter|std::slice::Iter|std::slice::IterMut|std::str::Chars|std::iter::Peekable)<.*>>::(as_slice|as_str)')
def m_iter_as_slice(it, c):
    pi = it_of(c); return Ref(Box_(list(pi.items[pi.i:])))

# ---------------------------------------------------------------- registered in FRONT of the generic iterator models
def reg_front(pat, fn, wc=False): REG.insert(0, (re.compile(pat), fn, wc))
def _opt_items(o):
    o = deref_all(o)
    return [o.fields[0]] if o.variant == 1 else []
reg_front(r'<std::option::Option<.*> as std::iter::IntoIterator>::into_iter', lambda it, o: PyIter(_opt_items(o)))
reg_front(r'<&(mut )?std::option::Option<.*> as std::iter::IntoIterator>::into_iter', lambda it, o: PyIter([Ref(Box_(x)) for x in _opt_items(o)]))
reg_front(r'<std::result::Result<.*> as std::iter::IntoIterator>::into_iter', lambda it, r: PyIter([deref_all(r).fields[0]] if deref_all(r).variant == 0 else []))
def _copy_one_level(it, v):
    # Option<&T>::copied/cloned gives Option<T>: one reference level goes (T may itself be a reference)
    if isinstance(v, Ref):
        inner = v.get()
        return inner if isinstance(inner, Ref) else it.clone(inner)
    return it.clone(v)
reg_front(r'std::option::Option::<&.*>::(copied|cloned)', lambda it, o: SOME(_copy_one_level(it, o.fields[0])) if o.variant == 1 else NONE())

# ---------------------------------------------------------------- unbounded ranges (start..) consumed lazily
class LazyIter:
    """an iterator that cannot be materialised (it starts at an unbounded range): a Python generator; consumers stop at a budget"""
    LIMIT = 4096
    def __init__(self, gen): self.gen = gen
    def take(self, it):
        n = 0
        for x in self.gen:
            n += 1
            if n > self.LIMIT: raise Budget('unbounded iterator consumed beyond %d items' % self.LIMIT)
            yield x
def _is_range_from(d):
    return isinstance(d, Adt) and not isinstance(d.variant, str) and d.variant == 0 and len(d.fields) == 1 and 'RangeFrom' in (d.ty or '')
def _lazy_src(it, x):
    d = deref_all(x)
    if isinstance(d, LazyIter): return d
    if _is_range_from(d):
        def g(start=d.fields[0]):
            k = 0
            while True:
                yield start + k; k += 1
        return LazyIter(g())
    return None
def _lazy_or(it, orig, itr, lazy_fn, *args):
    lz = _lazy_src(it, itr)
    return lazy_fn(lz, *args) if lz is not None else orig(it, itr, *args)
def _wrap_lazy(name, lazy_fn, with_generics=True):
    from . import models
    pat = re.compile(_IT + name + (r'(::<.*>)?' if with_generics else ''))
    # the eager model that is registered for the same call
    cache = {}
    def find_orig(callee):
        if callee not in cache:
            cache[callee] = (None, None)
            for p, fn, wc in REG:
                if getattr(fn, '_lazy_wrapper', False): continue
                if p.fullmatch(callee): cache[callee] = (fn, wc); break
        return cache[callee]
    def wrapper(it, callee, itr, *args):
        lz = _lazy_src(it, itr)
        if lz is not None: return lazy_fn(it, lz, *args)
        fn, wc = find_orig(callee)
        if fn is None: raise Unsupported('call ' + callee)
        return fn(it, callee, itr, *args) if wc else fn(it, itr, *args)
    wrapper._lazy_wrapper = True
    REG.insert(0, (pat, wrapper, True))
def _lz_map(it, lz, clo): return LazyIter(it.call_closure(clo, x) for x in lz.take(it))
def _lz_filter(it, lz, clo): return LazyIter(x for x in lz.take(it) if B(it, it.call_closure(clo, Ref(Box_(x)))))
def _lz_filter_map(it, lz, clo):
    def g():
        for x in lz.take(it):
            r = it.call_closure(clo, x)
            if r.variant == 1: yield r.fields[0]
    return LazyIter(g())
def _lz_find(it, lz, clo):
    for x in lz.take(it):
        if B(it, it.call_closure(clo, Ref(Box_(x)))): return SOME(x)
    return NONE()
def _lz_find_map(it, lz, clo):
    for x in lz.take(it):
        r = it.call_closure(clo, x)
        if r.variant == 1: return r
    return NONE()
def _lz_position(it, lz, clo):
    for k, x in enumerate(lz.take(it)):
        if B(it, it.call_closure(clo, x)): return SOME(k)
    return NONE()
def _lz_any(it, lz, clo):
    for x in lz.take(it):
        if B(it, it.call_closure(clo, x)): return True
    return False
def _lz_next(it, lz):
    for x in lz.take(it): return SOME(x)
    return NONE()
def _lz_take(it, lz, n):
    if not isinstance(n, int): raise Unsupported('symbolic take')
    out = []
    for x in lz.take(it):
        if len(out) >= n: break
        out.append(x)
    return PyIter(out)
def _lz_take_while(it, lz, clo):
    out = []
    for x in lz.take(it):
        if not B(it, it.call_closure(clo, Ref(Box_(x)))): break
        out.append(x)
    return PyIter(out)
def _lz_map_while(it, lz, clo):
    out = []
    for x in lz.take(it):
        r = it.call_closure(clo, x)
        if r.variant != 1: break
        out.append(r.fields[0])
    return PyIter(out)
def _lz_enumerate(it, lz): return LazyIter([k, x] for k, x in enumerate(lz.take(it)))
def _lz_skip(it, lz, n):
    def g():
        for k, x in enumerate(lz.take(it)):
            if k >= n: yield x
    return LazyIter(g())
for _nm, _fn, _g in (('map', _lz_map, True), ('filter', _lz_filter, True), ('filter_map', _lz_filter_map, True), ('find', _lz_find, True), ('find_map', _lz_find_map, True),
                     ('position', _lz_position, True), ('any', _lz_any, True), ('next', _lz_next, False), ('take', _lz_take, False), ('take_while', _lz_take_while, True),
                     ('map_while', _lz_map_while, True), ('enumerate', _lz_enumerate, False), ('skip', _lz_skip, False)):
    _wrap_lazy(_nm, _fn, _g)

def _cow_chars(c):
    d = deref_all(c)
    while isinstance(d, Adt) and d.fields: d = deref_all(d.fields[0])
    return list(d.chars)
reg(r"<std::string::String as std::convert::From<std::borrow::Cow<'_, str>>>::from", lambda it, c: SStr(_cow_chars(c)))
reg(r"<std::borrow::Cow<'_, str> as std::convert::From<(&str|&'_ str|std::string::String|&std::string::String)>>::from", lambda it, s: Adt(0 if isinstance(s, Ref) else 1, [s]))
reg(r"<std::borrow::Cow<'_, str> as std::convert::Into<std::string::String>>::into", lambda it, c: SStr(_cow_chars(c)))
reg(r"std::borrow::Cow::<'_, str>::(is_borrowed|is_owned)", lambda it, c: (deref_all(c).variant == 0))

# `impl Into<Vec<T>>` arguments in generic position: the MIR keeps the opaque name; a Vec goes into a Vec / ThinVec unchanged
reg(r'<impl Into<.*> as std::convert::Into<(std::vec::Vec|thin_vec::ThinVec)<.*>>>::into', lambda it, v: v)
reg(r'<(std::vec::Vec|thin_vec::ThinVec)<(.*)> as std::convert::(Into|From)<(std::vec::Vec|thin_vec::ThinVec)<.*>>>::(into|from)', lambda it, v: v)
