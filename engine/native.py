"""Native side: builds /verif/replay against /repo's working tree (hooks on) and runs cases through it."""
import os, subprocess, time, sys
from .run import VERIF, CACHE, ENV, REPO

TARGET = os.path.join(CACHE, 'replay-target')
_built = {}

def build(profile='dev', log=print):
    if profile in _built: return _built[profile]
    t0 = time.time()
    env = dict(ENV, RUSTFLAGS='--cfg umya_verif')
    cmd = ['cargo', 'build', '--offline', '--target-dir', TARGET] + (['--release'] if profile == 'release' else [])
    r = subprocess.run(cmd, cwd=os.path.join(VERIF, 'replay'), env=env, stdout=subprocess.PIPE, stderr=subprocess.STDOUT, text=True)
    if r.returncode != 0:
        sys.stderr.write(r.stdout[-6000:])
        raise RuntimeError('native replay build failed (%s)' % profile)
    path = os.path.join(TARGET, 'release' if profile == 'release' else 'debug', 'umya-replay')
    log('native: %s build %.1fs' % (profile, time.time() - t0))
    _built[profile] = path
    return path

def hx(s): return s.encode('utf-8').hex()
def unhx(s): return bytes.fromhex(s).decode('utf-8')

def encode(case):
    """case = [kind, arg, ...]; str args are hex encoded, ints/bools printed"""
    out = [case[0]]
    for a in case[1:]:
        if isinstance(a, bool): out.append('1' if a else '0')
        elif isinstance(a, int): out.append(str(a))
        elif isinstance(a, str): out.append(hx(a))
        else: raise TypeError(a)
    return '\t'.join(out)

def parse_line(line):
    parts = line.rstrip('\n').split('\t')
    if parts[0] == 'panic': return ('panic', unhx(parts[1]) if len(parts) > 1 else '')
    return ('ok', parts[1:])

def run_cases(cases, profile='dev', timeout_each=5.0, log=print):
    """-> list of ('ok', fields) | ('panic', msg) | ('timeout', None) | ('crash', msg)"""
    exe = build(profile, log)
    results = [None] * len(cases)
    todo = list(range(len(cases)))
    while todo:
        inp = '\n'.join(encode(cases[i]) for i in todo) + '\n'
        try:
            r = subprocess.run([exe], input=inp, stdout=subprocess.PIPE, stderr=subprocess.PIPE, text=True,
                               timeout=timeout_each + 0.002 * len(todo))
            lines = r.stdout.split('\n')
            crashed = r.returncode != 0
        except subprocess.TimeoutExpired as e:
            out = e.stdout or b''
            lines = (out.decode() if isinstance(out, bytes) else out).split('\n')
            crashed = 'timeout'
        lines = [l for l in lines if l]
        for k, l in enumerate(lines[:len(todo)]): results[todo[k]] = parse_line(l)
        n = len(lines)
        if n >= len(todo): break
        # the case after the last answered one hung or killed the process
        bad = todo[n]
        results[bad] = ('timeout', None) if crashed == 'timeout' else ('crash', 'exit %s' % crashed)
        todo = todo[n + 1:]
    return results
