"""Native side: builds /verif/replay against /repo's working tree (hooks on) and runs cases through it."""
import os, subprocess, time, sys
from .run import VERIF, CACHE, ENV, REPO

TARGET = os.path.join(CACHE, 'replay-target')
_built = {}

def build(profile='dev', log=print):
    if profile in _built: return _built[profile]
    t0 = time.time()
    env = dict(ENV, RUSTFLAGS='--cfg umya_verif')
    cmd = ['cargo', 'build', '--offline', '--target-dir', TARGET] + (['--release'] if profile == 'release' else [])
    r = subprocess.run(cmd, cwd=os.path.join(VERIF, 'replay'), env=env, stdout=subprocess.PIPE, stderr=subprocess.STDOUT, text=True)
    if r.returncode != 0:
        sys.stderr.write(r.stdout[-6000:])
        raise RuntimeError('native replay build failed (%s)' % profile)
    path = os.path.join(TARGET, 'release' if profile == 'release' else 'debug', 'umya-replay')
    log('native: %s build %.1fs' % (profile, time.time() - t0))
    _built[profile] = path
    return path

def hx(s): return s.encode('utf-8').hex()
def unhx(s): return bytes.fromhex(s).decode('utf-8')

def encode(case):
    """case = [kind, arg, ...]; str args are hex encoded, ints/bools printed"""
    out = [case[0]]
    for a in case[1:]:
        if isinstance(a, bool): out.append('1' if a else '0')
        elif isinstance(a, int): out.append(str(a))
        elif isinstance(a, str): out.append(hx(a))
        else: raise TypeError(a)
    return '\t'.join(out)

def parse_line(line):
    parts = line.rstrip('\n').split('\t')
    if parts[0] == 'panic': return ('panic', unhx(parts[1]) if len(parts) > 1 else '')
    return ('ok', parts[1:])

def run_cases(cases, profile='dev', timeout_each=5.0, log=print):
    """-> list of ('ok', fields) | ('panic', msg) | ('timeout', None) | ('crash', msg)"""
    exe = build(profile, log)
    results = [None] * len(cases)
    todo = list(range(len(cases)))
    while todo:
        inp = '\n'.join(encode(cases[i]) for i in todo) + '\n'
        try:
            r = subprocess.run([exe], input=inp, stdout=subprocess.PIPE, stderr=subprocess.PIPE, text=True,
                               timeout=timeout_each + 0.002 * len(todo))
            lines = r.stdout.split('\n')
            crashed = r.returncode != 0
        except subprocess.TimeoutExpired as e:
            out = e.stdout or b''
            lines = (out.decode() if isinstance(out, bytes) else out).split('\n')
            crashed = 'timeout'
        lines = [l for l in lines if l]
        for k, l in enumerate(lines[:len(todo)]): results[todo[k]] = parse_line(l)
        n = len(lines)
        if n >= len(todo): break
        # the case after the last answered one hung or killed the process
        bad = todo[n]
        results[bad] = ('timeout', None) if crashed == 'timeout' else ('crash', 'exit %s' % crashed)
        todo = todo[n + 1:]
    return results


def run_fsize(kind, model_limit, profile='dev', model_size=None, stale_tmp=None):
    """native fault injection for C13: the real path-based save under RLIMIT_FSIZE (SIGXFSZ ignored, so writes fail with EFBIG)"""
    import tempfile, shutil, resource, signal
    exe = build(profile)
    big = bool(model_size is not None and model_size >= 8192)
    r = subprocess.run([exe], input=encode(['package_size', kind, big]) + '\n', stdout=subprocess.PIPE, text=True)
    size = int(parse_line(r.stdout.split('\n')[0])[1][0])
    # keep the relation between the fault point and the package size of the model
    if model_size:
        limit = 0 if model_limit <= 0 else (size + 4096 if model_limit >= model_size else max(1, min(size - 1, int(size * model_limit / model_size))))
    else: limit = model_limit
    d = tempfile.mkdtemp(prefix='umya-c13-')
    try:
        ext = 'csv' if kind == 'csv' else 'xlsx'
        dest = os.path.join(d, 'out.' + ext)
        open(dest, 'wb').write(b'OLD')
        if stale_tmp:   # temp file of an earlier, killed save
            open(dest + 'tmp', 'wb').write(b'S' * ((size + 5000) if stale_tmp == 'longer' else max(0, size // 2)))
        def pre():
            signal.signal(signal.SIGXFSZ, signal.SIG_IGN)
            resource.setrlimit(resource.RLIMIT_FSIZE, (limit, limit))
        p = subprocess.run([exe], input=encode(['fsize_save', kind, d, big]) + '\n', stdout=subprocess.PIPE, stderr=subprocess.PIPE, text=True, preexec_fn=pre, timeout=60)
        line = (p.stdout.split('\n') + [''])[0]
        res = parse_line(line) if line else ('crash', 'exit %s' % p.returncode)
        data = open(dest, 'rb').read() if os.path.exists(dest) else None
        out = {'result': res[1][0] if res[0] == 'ok' else res[0] + ':' + str(res[1]), 'package_size': size, 'rlimit_fsize': limit,
               'dest_len': None if data is None else len(data), 'dest_is_old': data == b'OLD', 'leftover': sorted(x for x in os.listdir(d) if x != 'out.' + ext)}
        out['dest_complete'] = data is not None and data != b'OLD' and abs(len(data) - size) <= (0 if kind == 'csv' else 64)
        return out
    finally:
        shutil.rmtree(d, ignore_errors=True)
