"""native confirmation of C14 data-flow counterexamples: the real encrypt() and /verif's own agile decryptor (replay/src/agile.rs)"""
import tempfile, shutil
from . import native
def confirm(size, password, profile):
    d = tempfile.mkdtemp(prefix='umya-c14-')
    try:
        r = native.run_cases([['encrypt_decrypt', size, password, d]], profile, timeout_each=120)[0]
    finally: shutil.rmtree(d, ignore_errors=True)
    if r[0] != 'ok': return True, 'encrypt/decrypt of %d bytes -> %r' % (size, r)
    lines = [native.unhx(x) for x in r[1]]
    good = ['verifier=true hmac=true length=true plain=true', 'wrong_password_verifier=false', 'verifier=true hmac=true length=true plain=true', 'fresh=true']
    bad = [l for l, g in zip(lines, good) if not l.startswith(g)] or (len(lines) != 4)
    return bool(bad), 'package of %d bytes, password %r: %s' % (size, password, '; '.join(lines))
