"""./check replay <violation.json>: re-run a recorded counterexample against the natively built real crate."""
import json, importlib, sys
def main(path):
    rec = json.load(open(path))
    mod = importlib.import_module('harness.' + rec['property'].lower())
    hs = [h for h in mod.all_harnesses() if h.name == rec['harness']] if hasattr(mod, 'all_harnesses') else \
         [h for h in mod.harnesses('thorough') if h.name == rec['harness']]
    if not hs:
        print('unknown harness', rec['harness']); return 2
    h = hs[0]; bad = False
    for prof in ('dev', 'release'):
        c, what = h.confirm(rec['case'], prof)
        print('%s: %s: %s' % (prof, 'REPRODUCED' if c else 'not reproduced', what))
        bad = bad or c
    if bad: print('VIOLATION property=%s replay=%s' % (rec['property'], path))
    return 1 if bad else 0
