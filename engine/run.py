"""Driver: MIR dump of /repo's working tree, parallel path exploration, result aggregation."""
import os, sys, re, time, json, hashlib, shutil, subprocess, tempfile, atexit, collections, traceback
import concurrent.futures as cf
import multiprocessing as mp
import z3
from . import core, models, containers
from .core import Interp, Ctx, Panic, Unsupported, Budget, Infeasible

VERIF = os.path.dirname(os.path.dirname(os.path.abspath(__file__)))
REPO = os.environ.get('VERIF_REPO', '/repo')
CACHE = os.path.join(VERIF, '.cache')
NPROC = int(os.environ.get('VERIF_NPROC', '16'))
ENV = dict(os.environ, CARGO_NET_OFFLINE='true')

def tree_hash(repo=REPO):
    h = hashlib.sha256()
    files = []
    for root, _, fs in os.walk(os.path.join(repo, 'src')):
        for f in fs: files.append(os.path.join(root, f))
    files += [os.path.join(repo, 'Cargo.toml'), os.path.join(repo, 'Cargo.lock')]
    for p in sorted(files):
        h.update(os.path.relpath(p, repo).encode()); h.update(b'\0')
        with open(p, 'rb') as fh: h.update(fh.read())
        h.update(b'\0')
    return h.hexdigest()

_scratch = []
def _cleanup():
    for d in _scratch: shutil.rmtree(d, ignore_errors=True)
atexit.register(_cleanup)

def mir_dump(repo=REPO, want_smir=False, log=print):
    """rustc MIR text of the current working tree of /repo.  The dump is keyed by the sha256 of src/, Cargo.toml and
    Cargo.lock: a tree that differs in any byte is re-dumped; a byte-identical tree reuses the identical dump."""
    th = tree_hash(repo)
    d = os.path.join(CACHE, 'mir', th[:24]); os.makedirs(d, exist_ok=True)
    mirp, smirp, srcp = os.path.join(d, 'mir.txt'), os.path.join(d, 'smir.txt'), os.path.join(d, 'src')
    # checks started at the same time share this cache: one of them dumps, the others wait for the lock and find the files
    import fcntl
    lock = open(os.path.join(d, '.lock'), 'w'); fcntl.flock(lock, fcntl.LOCK_EX)
    need = [p for p in ([mirp] + ([smirp] if want_smir else [])) if not os.path.exists(p)]
    if need or not os.path.isdir(srcp):
        scratch = tempfile.mkdtemp(prefix='umya-mir-'); _scratch.append(scratch)
        work = os.path.join(scratch, 'repo'); os.makedirs(work)
        shutil.copytree(os.path.join(repo, 'src'), os.path.join(work, 'src'))
        for f in ('Cargo.toml', 'Cargo.lock'): shutil.copy(os.path.join(repo, f), work)
        tgt = os.path.join(CACHE, 'mir-target')
        for path, flag in ((mirp, 'mir'), (smirp, 'stable-mir')):
            if path not in need: continue
            t0 = time.time()
            subprocess.run(['touch', os.path.join(work, 'src', 'lib.rs')])
            cmd = ['cargo', '+nightly', 'rustc', '--offline', '--lib', '--target-dir', tgt, '--', '-Zunpretty=' + flag,
                   '-Ztrim-diagnostic-paths=no', '-C', 'debug-assertions=off', '-C', 'overflow-checks=on']
            with open(path + '.tmp', 'w') as out:
                r = subprocess.run(cmd, cwd=work, stdout=out, stderr=subprocess.PIPE, env=ENV, text=True)
            if r.returncode != 0:
                sys.stderr.write(r.stderr[-4000:])
                raise RuntimeError('MIR dump failed (does /repo compile?)')
            os.rename(path + '.tmp', path)
            log('mir: %s dump %.1fs (%d bytes)' % (flag, time.time() - t0, os.path.getsize(path)))
        if os.path.isdir(srcp): shutil.rmtree(srcp)
        shutil.copytree(os.path.join(work, 'src'), srcp)
        shutil.rmtree(scratch, ignore_errors=True)
        # keep the cache small: only the 4 most recent trees
        root = os.path.join(CACHE, 'mir')
        ds = sorted((os.path.join(root, x) for x in os.listdir(root)), key=os.path.getmtime)
        for old in ds[:-4]:
            if old != d: shutil.rmtree(old, ignore_errors=True)
    else:
        os.utime(d)
    fcntl.flock(lock, fcntl.LOCK_UN); lock.close()
    sha = hashlib.sha256(open(mirp, 'rb').read()).hexdigest()
    return {'mir': mirp, 'smir': smirp if want_smir else None, 'src': srcp, 'tree_hash': th, 'mir_sha256': sha}

def load_interp(want_smir=False, log=print):
    d = mir_dump(want_smir=want_smir, log=log)
    it = Interp(d['mir'], d['src'], d['smir'])
    it.dump_info = d
    return it

# ---------------------------------------------------------------- exploration
_H = None      # harness instance, set before forking workers
_IT = None
_SEED = 0

class PathResult(dict): pass

def run_one(prefix):
    """execute one path of the current harness; returns (result dict, pending prefixes)"""
    h, it = _H, _IT
    ctx = Ctx(prefix, seed=_SEED, timeout_ms=getattr(h, 'solver_timeout_ms', 30000))
    it.ctx = ctx; it.depth = 0; it.stack = []
    it.statics = dict(getattr(it, 'statics_base', {}))
    res = {'prefix': list(prefix), 'verdicts': []}
    t0 = time.time()
    try:
        out = h.run(it, ctx, res)
        res['outcome'] = out if isinstance(out, str) else 'ok'
    except Infeasible:
        res['outcome'] = 'infeasible'
    except Unsupported as e:
        res['outcome'] = 'unsupported'; res['detail'] = '%s @ %s' % (e, getattr(e, '_where', ''))
    except Budget as e:
        res['outcome'] = 'budget'; res['detail'] = str(e)
    except Panic as e:
        res['outcome'] = 'panic-unhandled'; res['detail'] = str(e)
    except RecursionError as e:
        res['outcome'] = 'unsupported'; res['detail'] = 'python recursion limit'
    except Exception as e:
        res['outcome'] = 'engine-error'
        res['detail'] = '%s: %s @ %s\n%s' % (type(e).__name__, e, getattr(e, '_where', ''), traceback.format_exc()[-1500:])
    res['prefix'] = list(ctx.trace)
    res['steps'] = ctx.steps; res['branches'] = len(ctx.trace); res['queries'] = ctx.queries
    res['solver_s'] = round(ctx.solver_s, 4); res['wall_s'] = round(time.time() - t0, 4)
    res['called'] = None
    if ctx.fork_log is not None: res['forks'] = ctx.fork_log
    return res, ctx.pending

def _task(prefixes, max_paths, max_secs):
    """worker: depth-first over a small subtree, hand back what is left"""
    t0 = time.time(); results = []; work = list(prefixes)
    n0 = len(_IT.called)
    while work and len(results) < max_paths and time.time() - t0 < max_secs:
        p = work.pop()
        r, pend = run_one(p)
        results.append(r); work.extend(pend)
    return results, work, sorted(_IT.called)

def explore(h, it, seed=0, nproc=None, max_paths=2000000, deadline=None, log=print, chunk_paths=40, chunk_secs=3.0):
    """explore every feasible path of harness h.  Returns dict with results list and counters."""
    global _H, _IT, _SEED
    _H, _IT, _SEED = h, it, seed
    nproc = nproc or NPROC
    sys.setrecursionlimit(20000)
    it.statics_base = dict(it.statics)
    results, called = [], set()
    t0 = time.time()
    # a first path in-process: gives early error messages and warms the caches shared by fork
    r, pend = run_one([])
    results.append(r); called |= it.called
    stop = None
    if pend:
        ctxm = mp.get_context('fork')
        with cf.ProcessPoolExecutor(max_workers=nproc, mp_context=ctxm) as ex:
            queue = collections.deque([p] for p in pend)
            inflight = set()
            last = time.time()
            while queue or inflight:
                while queue and len(inflight) < nproc * 2:
                    inflight.add(ex.submit(_task, queue.popleft(), chunk_paths, chunk_secs))
                done, inflight = cf.wait(inflight, return_when=cf.FIRST_COMPLETED)
                for fu in done:
                    rs, rem, cl = fu.result()
                    results.extend(rs); called.update(cl)
                    # split the remainder so that idle workers get some
                    for p in rem: queue.append([p])
                if time.time() - last > 30:
                    last = time.time(); log('  ... %d paths, %d queued, %.0fs' % (len(results), len(queue), time.time() - t0))
                if len(results) > max_paths: stop = 'path budget %d' % max_paths
                if deadline and time.time() > deadline: stop = 'deadline'
                if stop:
                    for fu in inflight: fu.cancel()
                    break
    return {'results': results, 'called': called, 'stopped': stop, 'wall_s': time.time() - t0}
