"""Backtracking regex matcher (leftmost-first, greedy, captures, lookahead) over code-point sequences
whose elements may be z3 terms; symbolic tests go through ctx.branch."""
import z3

class P:  # parser
    def __init__(self, s): self.s, self.i, self.ngroups = s, 0, 0
    def peek(self): return self.s[self.i] if self.i < len(self.s) else None
    def eat(self): c = self.s[self.i]; self.i += 1; return c
    def parse(self):
        r = self.alt()
        assert self.i == len(self.s), 'trailing ' + self.s[self.i:]
        return r
    def alt(self):
        branches = [self.seq()]
        while self.peek() == '|': self.eat(); branches.append(self.seq())
        return ('alt', branches) if len(branches) > 1 else branches[0]
    def seq(self):
        items = []
        while self.peek() is not None and self.peek() not in '|)':
            items.append(self.quant())
        return ('seq', items)
    def quant(self):
        a = self.atom()
        while self.peek() in ('?', '*', '+', '{'):
            c = self.peek()
            if c == '{':
                j = self.s.index('}', self.i); body = self.s[self.i+1:j]
                if not body or not body[0].isdigit(): break
                self.i = j + 1
                lo, _, hi = body.partition(',')
                lo = int(lo); hi = lo if ',' not in body else (int(hi) if hi else None)
            else:
                self.eat(); lo, hi = {'?': (0, 1), '*': (0, None), '+': (1, None)}[c]
            lazy = False
            if self.peek() == '?': self.eat(); lazy = True
            elif self.peek() == '+': raise ValueError('possessive quantifier unsupported')
            a = ('rep', a, lo, hi, lazy)
        return a
    def cls_escape(self, c):
        return {'d': [('r', 48, 57)], 'w': [('r', 48, 57), ('r', 65, 90), ('r', 97, 122), ('r', 95, 95)],
                's': [('r', 32, 32), ('r', 9, 13)]}.get(c)
    def atom(self):
        c = self.eat()
        if c == '(':
            kind = 'cap'
            if self.s.startswith('?:', self.i): self.i += 2; kind = 'nocap'
            elif self.s.startswith('?=', self.i): self.i += 2; kind = 'la'
            elif self.s.startswith('?!', self.i): self.i += 2; kind = 'nla'
            elif self.s.startswith('?', self.i): raise ValueError('unsupported group syntax at %d in %s' % (self.i, self.s))
            if kind == 'cap': self.ngroups += 1; g = self.ngroups
            inner = self.alt(); assert self.eat() == ')'
            return ('cap', g, inner) if kind == 'cap' else (kind, inner)
        if c == '[':
            neg = False
            if self.peek() == '^': self.eat(); neg = True
            items = []
            first = True
            while self.peek() != ']' or first:
                first = False
                ch = self.eat()
                if ch == '\\':
                    e = self.eat(); ce = self.cls_escape(e)
                    if ce: items += ce; continue
                    ch = e
                if self.peek() == '-' and self.s[self.i+1] != ']':
                    self.eat(); hi = self.eat()
                    if hi == '\\': hi = self.eat()
                    items.append(('r', ord(ch), ord(hi)))
                else: items.append(('r', ord(ch), ord(ch)))
            self.eat()
            return ('set', neg, items)
        if c == '\\':
            e = self.eat(); ce = self.cls_escape(e)
            if ce: return ('set', False, ce)
            if e in 'DWS': return ('set', True, self.cls_escape(e.lower()))
            if e.isalnum() and e not in 'nrt': raise ValueError('unsupported escape \\' + e)
            if e in 'nrt': e = {'n': '\n', 'r': '\r', 't': '\t'}[e]
            return ('set', False, [('r', ord(e), ord(e))])
        if c == '.': return ('set', True, [('r', 10, 10)])
        if c == '^': return ('bol',)
        if c == '$': return ('eol',)
        return ('set', False, [('r', ord(c), ord(c))])

def compile_rx(pat):
    p = P(pat); ast = p.parse(); return ast, p.ngroups

def match_at(ctx, ast, ngroups, text, start):
    """returns caps list [(s,e) or None]*(ngroups+1) or None"""
    def B(e): return ctx.branch(e) if not isinstance(e, bool) else e
    def test(setnode, ch):
        _, neg, items = setnode
        if isinstance(ch, int):
            r = any(lo <= ch <= hi for _, lo, hi in items)
        else:
            r = B(z3.Or([z3.And(ch >= lo, ch <= hi) for _, lo, hi in items]))
        return r != neg
    def m(node, pos, caps, k):
        t = node[0]
        if t == 'seq':
            def go(i, pos, caps):
                if i == len(node[1]): return k(pos, caps)
                return m(node[1][i], pos, caps, lambda p, c: go(i + 1, p, c))
            return go(0, pos, caps)
        if t == 'alt':
            for b in node[1]:
                r = m(b, pos, caps, k)
                if r is not None: return r
            return None
        if t == 'set':
            if pos < len(text) and test(node, text[pos]): return k(pos + 1, caps)
            return None
        if t == 'cap':
            g = node[1]
            def after(p, c):
                c2 = list(c); c2[g] = (pos, p); return k(p, c2)
            return m(node[2], pos, caps, after)
        if t == 'nocap': return m(node[1], pos, caps, k)
        if t == 'la':
            r = m(node[1], pos, caps, lambda p, c: c)
            return k(pos, r) if r is not None else None
        if t == 'nla':
            r = m(node[1], pos, caps, lambda p, c: c)
            return k(pos, caps) if r is None else None
        if t == 'bol': return k(pos, caps) if pos == 0 else None
        if t == 'eol': return k(pos, caps) if pos == len(text) else None
        if t == 'rep':
            _, inner, lo, hi, lazy = node
            def rep(count, pos, caps):
                def more():
                    if hi is None or count < hi:
                        def cont(p, c):
                            if p == pos and count >= lo: return None  # empty iteration guard
                            return rep(count + 1, p, c)
                        return m(inner, pos, caps, cont)
                    return None
                if lazy:
                    if count >= lo:
                        r = k(pos, caps)
                        if r is not None: return r
                    return more()
                r = more()
                if r is not None: return r
                if count >= lo: return k(pos, caps)
                return None
            return rep(0, pos, caps)
        raise ValueError(t)
    def fin(p, c):
        c2 = list(c); c2[0] = (start, p); return c2
    return m(ast, start, [None] * (ngroups + 1), fin)

_CACHE = {}
def search(ctx, pat, text, start=0):
    if pat not in _CACHE: _CACHE[pat] = compile_rx(pat)
    ast, ng = _CACHE[pat]
    for s in range(start, len(text) + 1):
        r = match_at(ctx, ast, ng, text, s)
        if r is not None: return r
    return None


if __name__ == '__main__':
    # self-test against Python's re on small alphabets (both are backtracking, leftmost-first)
    import re, itertools
    class _C:
        def branch(self, e): raise RuntimeError
    pats = [r"((\$)?([A-Z]{1,3}))?((\$)?([0-9]+))?", r"(0+)(\.?)(0*)", r"\[[^\]]+\]", r"(#|0)(,+)", r"a+?b*?c",
            r'(;)(?=(?:[^"]|"[^"]*")*$)', r"#?.*\?{1,2}\/\?{1,2}", r"[^0-9a-zA-Z]"]
    bad = n = 0
    for p in pats:
        alpha = sorted(set(c for c in p if c not in '()[]{}?*+|^\\') | set('A1$ '))[:6]
        for L in range(0, 5):
            for tup in itertools.product(alpha, repeat=L):
                t = ''.join(tup); n += 1
                mine = search(_C(), p, [ord(c) for c in t]); ref = re.search(p, t)
                a = None if mine is None else list(mine)
                b = None if ref is None else [ref.span(i) if ref.span(i) != (-1, -1) else None for i in range(ref.re.groups + 1)]
                if a != b: bad += 1
    print('regex model self-test: %d cases, %d mismatches' % (n, bad))
    raise SystemExit(1 if bad else 0)
