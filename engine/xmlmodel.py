"""Contract model of the quick-xml pieces the attribute channel goes through (documented behaviour):
BytesStart::from_content / extend_attributes (values are escaped with quick_xml::escape::escape: < > & ' " -> entities),
BytesStart::attributes() (raw, still escaped values), quick_xml::escape::unescape (the five predefined entities and
numeric character references).  Text is a list of code points, elements may be symbolic (decisions fork)."""
import re
import z3
from .core import *
from .models import B

ENT = {60: '&lt;', 62: '&gt;', 38: '&amp;', 39: '&apos;', 34: '&quot;'}
class QNameV(list):
    """quick_xml::name::QName(&[u8]): a tuple struct; field .0 is the byte slice, into_inner() too"""
    def __getitem__(self, i):
        if i == 0: return Ref(Box_(list(self)))          # the field is a `&[u8]`
        raise IndexError('QName has one field')
class Elem:
    def __init__(self, name): self.name, self.attrs = name, []          # attrs: [(key str, raw value chars)]
class AttrObj:
    def __init__(self, key, value): self.key, self.value = key, value
    def __getitem__(self, i): return [self.key, self.value][i]
def escape(it, cs):
    out = []
    for c in cs:
        hit = None
        for code, ent in ENT.items():
            if B(it, c == code): hit = ent; break
        if hit: out += [ord(x) for x in hit]
        else: out.append(c)
    return out
def unescape(it, cs):
    """-> chars, or None for a malformed entity (quick-xml returns Err)"""
    out, i, n = [], 0, len(cs)
    while i < n:
        if not B(it, cs[i] == 38): out.append(cs[i]); i += 1; continue
        j = i + 1
        while j < n and not B(it, cs[j] == 59): j += 1
        if j >= n: return None
        body = cs[i + 1:j]
        hit = None
        for code, ent in ENT.items():
            name = [ord(x) for x in ent[1:-1]]
            if len(name) == len(body) and all(B(it, a == b) for a, b in zip(body, name)): hit = code; break
        if hit is None:
            if body and B(it, body[0] == 35):
                ds = body[1:]
                if not ds or not all(isinstance(d, int) for d in ds): return None
                try:
                    s = ''.join(chr(d) for d in ds); hit = int(s[1:], 16) if s[0] in 'xX' else int(s)
                except ValueError: return None
            else: return None
        out.append(hit); i = j + 1
    return out
class Recorder:
    def __init__(self): self.events = []
def install(it):
    ms = []
    def m(pat, fn): ms.append((re.compile(pat), fn, False))
    m(r"quick_xml::events::BytesStart::<'_>::from_content::<.*>", lambda it_, name, n: Elem(pstr(name.fields[0]) if isinstance(name, Adt) else pstr(name)))
    def extend(it_, e, attrs):
        el = deref_all(e)
        for kv in deref_all(attrs):
            el.attrs.append((pstr(deref_all(kv[0])), escape(it_, deref_all(kv[1]).chars)))
        return e
    m(r"quick_xml::events::BytesStart::<'_>::extend_attributes::<.*>", extend)
    def push_pair(it_, e, kv):
        deref_all(e).attrs.append((pstr(deref_all(kv[0])), escape(it_, deref_all(kv[1]).chars))); return []
    m(r"quick_xml::events::BytesStart::<'_>::push_attribute::<(?:'_, )?\(&str, &str\)>", push_pair)
    def push_raw(it_, e, a):
        # an Attribute { key: QName(bytes), value: Cow<[u8]> } is taken over as it stands (no escaping)
        a = deref_all(a); key, val = deref_all(a.fields[0]), deref_all(a.fields[1])
        while isinstance(key, Adt): key = deref_all(key.fields[0])
        while isinstance(val, Adt): val = deref_all(val.fields[0])
        chars = val.chars if isinstance(val, SStr) else getattr(val, 'chars', None)
        if chars is None: raise Unsupported('raw attribute value that is not the bytes of a str')
        deref_all(e).attrs.append((pstr(SStr(key.chars if hasattr(key, 'chars') else list(key))), list(chars))); return []
    m(r"quick_xml::events::BytesStart::<'_>::push_attribute::<(?:'_, )?quick_xml::events::attributes::Attribute<'_>>", push_raw)
    m(r'quick_xml::Writer::<.*>::write_event::<.*>', lambda it_, w, ev: (deref_all(w).events.append(ev), OK([]))[1])
    m(r"quick_xml::events::BytesStart::<'_>::attributes", lambda it_, e: PyIter([OK(AttrObj(QNameV([ord(x) for x in k]), list(v))) for k, v in deref_all(e).attrs]))
    m(r"quick_xml::events::attributes::Attributes::<'_>::with_checks", lambda it_, a, flag: a)
    m(r"quick_xml::name::QName::<'_>::into_inner", lambda it_, q: Ref(Box_(list(q))))
    def slice_eq(it_, a, b):
        x, y = list(deref_all(a)), list(deref_all(b))
        if len(x) != len(y): return False
        return all(B(it_, p == q) for p, q in zip(x, y))
    m(r'<&?\[u8\] as std::cmp::PartialEq<&?\[u8\]>>::eq', slice_eq)
    m(r'<\[u8\] as std::cmp::PartialEq>::eq', slice_eq)
    m(r'<&?\[u8\] as std::cmp::PartialEq<&?\[u8; \d+\]>>::eq', slice_eq)
    m(r'<\[u8\] as std::cmp::PartialEq<\[u8; \d+\]>>::eq', slice_eq)
    m(r"<std::borrow::Cow<'_, \[u8\]> as std::ops::Deref>::deref", lambda it_, c: Ref(Box_(list(deref_all(c)))))
    m(r'std::string::String::from_utf8', lambda it_, v: OK(SStr(list(v))))       # raw attribute values are kept as code points
    def unesc(it_, s):
        r = unescape(it_, deref_all(s).chars)
        return ERR('EscapeError') if r is None else OK(Adt(1, [SStr(r)]))
    m(r'quick_xml::escape::unescape', unesc)
    m(r"std::borrow::Cow::<'_, str>::into_owned", lambda it_, c: SStr(deref_all(c.fields[0]).chars))
    it.models = ms + list(it.models)

# ---------------------------------------------------------------- event stream: writer recorder -> reader replay
import glob, os
def event_order():
    """variant order of quick_xml::events::Event, read from the crate source the build uses"""
    for p in sorted(glob.glob(os.path.expanduser('~/.cargo/registry/src/*/quick-xml-0.37*/src/events/mod.rs'))):
        txt = open(p).read(); a = txt.index('pub enum Event<')
        body = txt[a:txt.index('\n}', a)]
        vs = re.findall(r'^\s{4}(\w+)(?:\(|,)', body, re.M)
        if 'Start' in vs and 'Eof' in vs: return vs
    return ['Start', 'End', 'Empty', 'Text', 'CData', 'Comment', 'Decl', 'PI', 'DocType', 'Eof']
class TextObj:
    def __init__(self, raw): self.raw = list(raw)          # escaped text as it stands in the XML stream
class EndObj:
    def __init__(self, name): self.name = name
class XmlReader:
    """replays the events a Recorder collected; trims text like quick-xml's Config::trim_text"""
    def __init__(self, events, trim=True): self.events, self.i, self.trim = list(events), 0, trim
WS_CHARS = (32, 9, 10, 13)
def install_events(it):
    order = event_order()
    ms = []
    def m(pat, fn): ms.append((re.compile(pat), fn, False))
    # raw bytes written behind the XML writer's back (writer.get_mut().write(..)): they are text content as it stands
    class RawSink:
        def __init__(self, rec): self.rec = rec
    m(r'quick_xml::Writer::<.*>::get_mut', lambda it_, w: Ref(Box_(RawSink(deref_all(w)))))
    def raw_write(it_, sink, data):
        d = deref_all(data); chars = getattr(d, 'chars', None)
        if chars is None:
            if all(isinstance(b, int) and b < 128 for b in d): chars = list(d)
            else: raise Unsupported('raw bytes written to the XML stream that are not the bytes of a str')
        deref_all(sink).rec.events.append(Adt('Text', [TextObj(chars)])); return OK(len(d))
    m(r'<std::io::Cursor<std::vec::Vec<u8>> as std::io::Write>::(write|write_all)', raw_write)
    m(r"quick_xml::events::BytesText::<'_>::new", lambda it_, s: TextObj(escape(it_, deref_all(s).chars)))
    m(r"quick_xml::events::BytesEnd::<'_>::new::<.*>", lambda it_, name: EndObj(pstr(name.fields[0]) if isinstance(name, Adt) else pstr(name)))
    m(r'quick_xml::escape::partial_escape::<.*>', lambda it_, s: Adt(1, [SStr(_partial(it_, (deref_all(s.fields[0]) if isinstance(s, Adt) else deref_all(s)).chars))]))
    def read_event(it_, r, buf):
        rd = deref_all(r)
        while rd.i < len(rd.events):
            ev = rd.events[rd.i]; rd.i += 1
            name = ev.variant if isinstance(ev.variant, str) else order[ev.variant]
            payload = ev.fields[0] if ev.fields else None
            if name == 'Text':
                raw = list(payload.raw)
                if rd.trim:
                    while raw and B(it_, z3.Or(*[raw[0] == w for w in WS_CHARS]) if is_sym(raw[0]) else raw[0] in WS_CHARS): raw.pop(0)
                    while raw and B(it_, z3.Or(*[raw[-1] == w for w in WS_CHARS]) if is_sym(raw[-1]) else raw[-1] in WS_CHARS): raw.pop()
                if not raw: continue          # a parser never reports an empty text node (<a></a> is Start, End)
                payload = TextObj(raw)
            return OK(Adt(order.index(name), [payload] if payload is not None else [], 'quick_xml::events::Event'))
        return OK(Adt(order.index('Eof'), [], 'quick_xml::events::Event'))
    m(r'quick_xml::(reader::buffered_reader::<impl quick_xml::Reader<.*>>|Reader::<.*>)::read_event_into', read_event)
    m(r'quick_xml::Reader::<.*>::config_mut', lambda it_, r: r)
    def trim_text(it_, r, flag): deref_all(r).trim = flag; return []
    m(r'quick_xml::reader::Config::trim_text', trim_text)
    m(r'quick_xml::Reader::<.*>::buffer_position', lambda it_, r: 0)
    def text_unescape(it_, t):
        r = unescape(it_, deref_all(t).raw)
        return ERR('EscapeError') if r is None else OK(Adt(1, [SStr(r)]))
    m(r"quick_xml::events::BytesText::<'_>::unescape", text_unescape)
    m(r"quick_xml::events::(BytesStart|BytesEnd)::<'_>::name", lambda it_, e: QNameV([ord(c) for c in deref_all(e).name]))
    m(r"<std::borrow::Cow<'_, str> as std::string::ToString>::to_string", lambda it_, c: SStr(deref_all(deref_all(c).fields[0]).chars))
    m(r'std::vec::Vec::<u8>::clear', lambda it_, v: [])
    it.models = ms + list(it.models)
def _partial(it, cs):
    out = []
    for c in cs:
        hit = None
        for code in (60, 62, 38):
            if B(it, c == code): hit = ENT[code]; break
        if hit: out += [ord(x) for x in hit]
        else: out.append(c)
    return out
