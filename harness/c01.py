"""C01 (kernel) — cell content survives save and reload: one cell through Cell::write_to -> XML events -> Cell::set_attributes."""
import z3
from engine.core import *
from engine.check import Harness, concrete
from engine import native, xmlmodel, containers
from harness.c17 import sref, iref, chars_eq

CELL = 'structs::cell::Cell::'
ERRS = ['#NULL!', '#DIV/0!', '#VALUE!', '#REF!', '#NAME?', '#NUM!', '#N/A']
KINDS = ['text', 'number', 'bool', 'error', 'blank_formula']
NUMS = ['0', '1.5', '-2', '100000', '0.1', '-0', '1e19', '-1e300', '1e-7', '123456789.125', '9007199254740993']
class CellTrip(Harness):
    name = 'cell.write_read'; property_id = 'C01'
    entry = [CELL + 'write_to', CELL + 'set_attributes', 'structs::cell_formula::CellFormula::write_to', 'structs::cell_formula::CellFormula::set_attributes', 'structs::shared_string_table::SharedStringTable::set_cell']
    def __init__(self, tier):
        self.maxn = 2 if tier == 'quick' else 3
        self.doc = 'one cell (text of 0..%d symbolic characters, number, boolean, each error literal; with or without a formula, the value then being the cached result) written by the real Cell::write_to into an XML event stream and read back by the real Cell::set_attributes: same value kind, same value text, same formula text' % self.maxn
        self.bounds = {'text_chars': [0, self.maxn], 'alphabet': ['a', '<', '&', '"', ' ', '\\n', 'é', '\U0001F600'], 'numbers': NUMS, 'errors': ERRS, 'formula': ['', 'A1&" "<>B2'], 'shared_strings': 'the table object filled by the writer is handed to the reader (the sharedStrings part is outside the kernel)', 'style': 'default (Stylesheet::set_style stubbed to index 0)'}
    def setup(self, it):
        from engine import cryptomodel as cm
        xmlmodel.install(it); xmlmodel.install_events(it); cm.install_digests(it)
    def run(self, it, ctx, res):
        ki = ctx.sym_int('kind', 0, len(KINDS) - 1); kind = KINDS[next(i for i in range(len(KINDS)) if ctx.branch(ki == i))]
        has_formula = kind == 'blank_formula' or ctx.branch(ctx.sym_bool('has_formula'))
        formula = 'A1&" "<>B2' if has_formula else ''
        text = None
        if kind == 'text':
            n = ctx.sym_int('len', 0, self.maxn); n = next(k for k in range(self.maxn + 1) if ctx.branch(n == k))
            text = [ctx.sym_int('t%d' % i, 10, 0x1F600) for i in range(n)]
            for c in text: ctx.define(z3.Or(*[c == a for a in (97, 60, 38, 34, 32, 10, 0xE9, 0x1F600)]))
        elif kind == 'number':
            ni = ctx.sym_int('num', 0, len(NUMS) - 1); text = NUMS[next(i for i in range(len(NUMS)) if ctx.branch(ni == i))]
        elif kind == 'bool': text = 'TRUE' if ctx.branch(ctx.sym_bool('bool')) else 'FALSE'
        elif kind == 'error':
            ei = ctx.sym_int('err', 0, len(ERRS) - 1); text = ERRS[next(i for i in range(len(ERRS)) if ctx.branch(ei == i))]
        info = {'kind': kind, 'formula': formula}
        rec = xmlmodel.Recorder()
        def raw_text(it_, w, data):
            d = deref_all(data.fields[0]) if isinstance(data, Adt) else deref_all(data)
            deref_all(w).events.append(Adt('Text', [xmlmodel.TextObj(d.chars)])); return []
        it.stubs = {'structs::stylesheet::Stylesheet::set_style': lambda it_, st, style: 0}
        import re
        it.stub_patterns = [(re.compile(r'writer::driver::write_text_node_no_escape::<.*>'), lambda it_, callee, w, data: raw_text(it_, w, data))]
        try:
            cell = Box_(it.call('<structs::cell::Cell as std::default::Default>::default', []))
            co = it.call(CELL + 'get_coordinate_mut', [Ref(cell)])
            it.call('structs::coordinate::Coordinate::set_col_num', [co, 2]); it.call('structs::coordinate::Coordinate::set_row_num', [co, 2])
            if kind == 'text': it.call(CELL + 'set_value_string::<&str>', [Ref(cell), sref(SStr(text))])
            elif kind == 'number': it.call(CELL + 'set_value_number::<f64>', [Ref(cell), float(text)])
            elif kind == 'bool': it.call(CELL + 'set_value_bool', [Ref(cell), text == 'TRUE'])
            elif kind == 'error': it.call(CELL + 'set_error::<&str>', [Ref(cell), sref(text)])
            if has_formula:
                cv = it.call(CELL + 'get_cell_value_mut', [Ref(cell)])
                it.call('structs::cell_value::CellValue::set_formula::<&str>', [cv, sref(formula)])
            before = self.show(it, cell)
            sst = Box_(it.call('<structs::shared_string_table::SharedStringTable as std::default::Default>::default', []))
            sty = Box_(it.call('<structs::stylesheet::Stylesheet as std::default::Default>::default', []))
            it.call(CELL + 'write_to', [Ref(cell), Ref(Box_(rec)), Ref(sst), Ref(sty), Ref(Box_(containers.HMap()))])
            evs = rec.events
            info['events'] = [e.variant for e in evs]
            if not evs:
                self.oblige(ctx, res, 'cell-written', kind == 'blank_formula' and not has_formula, info=info); return
            first = evs[0]; empty = first.variant == 'Empty'
            back = Box_(it.call('<structs::cell::Cell as std::default::Default>::default', []))
            rd = xmlmodel.XmlReader(evs[1:], trim=True)
            it.call(CELL + 'set_attributes::<&[u8]>', [Ref(back), Ref(Box_(rd)), Ref(Box_(first.fields[0])), Ref(sst), Ref(sty), empty, Ref(Box_(containers.HMap()))])
            after = self.show(it, back)
        except Panic as e:
            self.fail(ctx, res, 'no-panic', str(e), info=info); return
        finally:
            it.stubs = {}; it.stub_patterns = []
        self.oblige(ctx, res, 'same-kind', before[0] == after[0], info=dict(info, before=before[0], after=after[0]))
        self.oblige(ctx, res, 'same-value-text', chars_eq(after[1], before[1]) if len(after[1]) == len(before[1]) else False, info=dict(info, before_len=len(before[1]), after_len=len(after[1])))
        self.oblige(ctx, res, 'same-formula', before[2] == after[2], info=dict(info, after_formula=after[2]))
    def show(self, it, cell):
        dt = pstr(it.call(CELL + 'get_data_type', [Ref(cell)]))
        v = it.call(CELL + 'get_value', [Ref(cell)])
        val = deref_all(v.fields[0]).chars if isinstance(v, Adt) else deref_all(v).chars
        f = pstr(it.call(CELL + 'get_formula', [Ref(cell)]))
        return dt, list(val), f
    def validate(self, it, seed):
        """translator validation: the cell texts the interpreter computes for concrete cells equal the ones of the native build"""
        from engine import containers
        import re
        cs = [('number', n) for n in NUMS] + [('text', ' a<&"\n'), ('bool', 'TRUE'), ('error', '#DIV/0!')]
        nat = native.run_cases([['cell_roundtrip', k, t, ''] for k, t in cs], timeout_each=60); mism = []
        it.stubs = {'structs::stylesheet::Stylesheet::set_style': lambda it_, st, style: 0}
        try:
            for (k, t), n in zip(cs, nat):
                def once():
                    cell = Box_(it.call('<structs::cell::Cell as std::default::Default>::default', []))
                    if k == 'text': it.call(CELL + 'set_value_string::<&str>', [Ref(cell), sref(t)])
                    elif k == 'number': it.call(CELL + 'set_value_number::<f64>', [Ref(cell), float(t)])
                    elif k == 'bool': it.call(CELL + 'set_value_bool', [Ref(cell), t == 'TRUE'])
                    else: it.call(CELL + 'set_error::<&str>', [Ref(cell), sref(t)])
                    d, v, f = self.show(it, cell)
                    return '%s|%s|%s' % (d, ''.join(chr(c) for c in v), f)
                m = concrete(it, once)
                nn = native.unhx(n[1][0]) if n[0] == 'ok' else None
                if m[0] != 'ok' or m[1] != nn: mism.append('cell %s %r: mir %r native %r' % (k, t, m, nn))
        finally: it.stubs = {}
        return len(cs), mism
    def case_of(self, v):
        m = v['model']; kind = KINDS[m['kind']]
        text = {'text': lambda: ''.join(chr(m['t%d' % i]) for i in range(m.get('len', 0))), 'number': lambda: NUMS[m['num']], 'bool': lambda: 'TRUE' if m['bool'] else 'FALSE', 'error': lambda: ERRS[m['err']], 'blank_formula': lambda: ''}[kind]()
        c = {'kind': kind if kind != 'blank_formula' else 'value', 'text': text, 'formula': 'A1&" "<>B2' if (kind == 'blank_formula' or m.get('has_formula')) else '', 'oblig': v['oblig']}
        c['show'] = dict(c); return c
    def confirm(self, case, profile):
        r = native.run_cases([['cell_roundtrip', case['kind'], case['text'], case['formula']]], profile, timeout_each=60)[0]
        if r[0] != 'ok': return True, 'cell %r -> %r' % (case['show'], r)
        before, after = native.unhx(r[1][0]), native.unhx(r[1][1])
        return before != after, 'cell B2 before save %r, after reload %r' % (before, after)

SKINDS = ['text', 'rich', 'rich_bold', 'rich2']
class SharedStringIntern(Harness):
    name = 'shared_string.intern'; property_id = 'C01'
    entry = ['structs::shared_string_table::SharedStringTable::set_cell', 'structs::shared_string_item::SharedStringItem::get_hash_u64', 'structs::rich_text::RichText::get_hash_code', 'structs::text_element::TextElement::get_hash_code', 'structs::text::Text::get_hash_code']
    classes = {}
    def __init__(self, tier):
        self.maxn = 2 if tier == 'quick' else 3
        self.doc = 'two cell values, each plain text, rich text of one run (without or with a bold run font) or rich text of two runs with a symbolic run boundary, with symbolic texts of 0..%d characters, interned one after the other by the real SharedStringTable::set_cell: they get the same shared-string index only if kind, run structure and text are equal (md5 and the AHasher are injective free symbols over what is fed to them)' % self.maxn
        self.bounds = {'values': 2, 'kinds': SKINDS, 'text_chars': [0, self.maxn], 'alphabet': 'a-z', 'hash_model': 'md5 / ahash as injective functions of their input (collisions of the real hashes are outside the claim)'}
    def setup(self, it):
        from engine import cryptomodel as cm
        cm.install(it); cm.install_digests(it)
    def value(self, it, ctx, tag):
        ki = ctx.sym_int(tag + 'kind', 0, len(SKINDS) - 1); kind = SKINDS[next(i for i in range(len(SKINDS)) if ctx.branch(ki == i))]
        hi = self.maxn + 1 if kind == 'rich2' else self.maxn          # two runs get one more character, so that the run boundary can sit in two places
        n = ctx.sym_int(tag + 'len', 0, hi); n = next(k for k in range(hi + 1) if ctx.branch(n == k))
        cs = [ctx.sym_int('%st%d' % (tag, i), 97, 122) for i in range(n)]
        cut = None
        if kind == 'rich2':
            cv = ctx.sym_int(tag + 'cut', 0, n); cut = next(k for k in range(n + 1) if ctx.branch(cv == k))
        cell = Box_(it.call('<structs::cell::Cell as std::default::Default>::default', []))
        if kind == 'text': it.call(CELL + 'set_value_string::<&str>', [Ref(cell), sref(SStr(cs))])
        else:
            rt = Box_(it.call('<structs::rich_text::RichText as std::default::Default>::default', []))
            if cut is None: cut = len(cs)
            for k, part in enumerate([cs[:cut], cs[cut:]] if kind == 'rich2' else [cs]):
                te = Box_(it.call('<structs::text_element::TextElement as std::default::Default>::default', []))
                it.call('structs::text_element::TextElement::set_text::<&str>', [Ref(te), sref(SStr(part))])
                if kind == 'rich_bold':
                    f = it.call('structs::text_element::TextElement::get_run_properties_mut', [Ref(te)])
                    it.call('structs::font::Font::set_bold', [f, True])
                it.call('structs::rich_text::RichText::add_rich_text_elements', [Ref(rt), te.v])
            it.call(CELL + 'set_rich_text', [Ref(cell), rt.v])
        return cell, (kind, cut), cs
    def run(self, it, ctx, res):
        from engine import cryptomodel as cm
        it.world = cm.World()
        try:
            ca, ka, ta = self.value(it, ctx, 'a_'); cb, kb, tb = self.value(it, ctx, 'b_')
            sst = Box_(it.call('<structs::shared_string_table::SharedStringTable as std::default::Default>::default', []))
            ids = [it.call('structs::shared_string_table::SharedStringTable::set_cell', [Ref(sst), it.call(CELL + 'get_cell_value', [Ref(c)])]) for c in (ca, cb)]
            count = len(deref_all(it.call('structs::shared_string_table::SharedStringTable::get_shared_string_item', [Ref(sst)])))
        except Panic as e:
            self.fail(ctx, res, 'no-panic', str(e)); return
        same = (ka == kb and len(ta) == len(tb)) and (chars_eq(ta, tb) if ta else True)
        merged = ids[0] == ids[1]
        if is_sym(merged): merged = ctx.branch(merged)
        info = {'kinds': [list(ka), list(kb)], 'lens': [len(ta), len(tb)], 'ids': [str(i) for i in ids], 'items': count}
        if merged: self.oblige(ctx, res, 'same-index=>equal-values', same, info=info)
        else: self.oblige(ctx, res, 'different-index=>different-values', (not same) if isinstance(same, bool) else z3.Not(same), info=info)
    def case_of(self, v):
        m = v['model']
        f = lambda t: [SKINDS[m[t + 'kind']], ''.join(chr(m['%st%d' % (t, i)]) for i in range(m.get(t + 'len', 0))), m.get(t + 'cut', -1)]
        c = {'a': f('a_'), 'b': f('b_'), 'oblig': v['oblig']}; c['show'] = dict(c); return c
    def confirm(self, case, profile):
        a, b = case['a'], case['b']
        r = native.run_cases([['sst_pair', a[0], a[1], b[0], b[1], a[2], b[2]]], profile, timeout_each=60)[0]
        if r[0] != 'ok': return True, 'cells %r / %r -> %r' % (a, b, r)
        before, after = native.unhx(r[1][0]), native.unhx(r[1][1])
        return before != after, 'cells A1/A2 before save %r, after reload %r' % (before, after)

class SharedStringsPart(Harness):
    """the sharedStrings part itself: table -> XML -> table (the cell kernel hands the table object over and never sees this step)"""
    name = 'shared_strings_part.write_read'; property_id = 'C01'
    entry = ['structs::shared_string_table::SharedStringTable::write_to', 'structs::shared_string_table::SharedStringTable::set_attributes', 'structs::shared_string_item::SharedStringItem::set_attributes', 'structs::text::Text::set_attributes', 'structs::text::Text::write_to', 'structs::text_element::TextElement::set_attributes']
    classes = {}
    def __init__(self, tier):
        self.maxn = 2 if tier == 'quick' else 3
        self.doc = 'a shared-string table filled by the real set_cell with two cell values (plain text, or rich text of one run without / with a bold font, or two runs), texts of 0..%d symbolic characters out of a, blank, line feed, carriage return, &, <, written by the real SharedStringTable::write_to into an XML event stream and read back by the real SharedStringTable::set_attributes (the reader of the part switches text trimming off, as reader::xlsx::shared_strings does): every item has the same kind, the same runs and, character for character, the same text' % self.maxn
        self.bounds = {'items': 2, 'kinds': SKINDS, 'text_chars': [0, self.maxn], 'alphabet': ['a', ' ', '\\n', '\\r', '&', '<'], 'trim_text': 'as the real part reader sets it'}
    def setup(self, it):
        from engine import cryptomodel as cm
        xmlmodel.install(it); xmlmodel.install_events(it); cm.install(it); cm.install_digests(it)
    def value(self, it, ctx, tag):
        ki = ctx.sym_int(tag + 'kind', 0, len(SKINDS) - 1); kind = SKINDS[next(i for i in range(len(SKINDS)) if ctx.branch(ki == i))]
        n = ctx.sym_int(tag + 'len', 0, self.maxn); n = next(k for k in range(self.maxn + 1) if ctx.branch(n == k))
        cs = [ctx.sym_int('%st%d' % (tag, i), 10, 97) for i in range(n)]
        for c in cs: ctx.define(z3.Or(*[c == a for a in (97, 32, 10, 13, 38, 60)]))
        cell = Box_(it.call('<structs::cell::Cell as std::default::Default>::default', []))
        parts = [cs]
        if kind == 'text': it.call(CELL + 'set_value_string::<&str>', [Ref(cell), sref(SStr(cs))])
        else:
            rt = Box_(it.call('<structs::rich_text::RichText as std::default::Default>::default', []))
            parts = [cs[:1], cs[1:]] if kind == 'rich2' else [cs]
            for part in parts:
                te = Box_(it.call('<structs::text_element::TextElement as std::default::Default>::default', []))
                it.call('structs::text_element::TextElement::set_text::<&str>', [Ref(te), sref(SStr(part))])
                if kind == 'rich_bold': it.call('structs::font::Font::set_bold', [it.call('structs::text_element::TextElement::get_run_properties_mut', [Ref(te)]), True])
                it.call('structs::rich_text::RichText::add_rich_text_elements', [Ref(rt), te.v])
            it.call(CELL + 'set_rich_text', [Ref(cell), rt.v])
        return cell, kind, parts
    def items(self, it, table):
        out = []
        for item in deref_all(it.call('structs::shared_string_table::SharedStringTable::get_shared_string_item', [Ref(table)])):
            ir = Ref(Box_(item))
            t = it.call('structs::shared_string_item::SharedStringItem::get_text', [ir]); r = it.call('structs::shared_string_item::SharedStringItem::get_rich_text', [ir])
            if r.variant == 1:
                runs = []
                for el in deref_all(it.call('structs::rich_text::RichText::get_rich_text_elements', [r.fields[0]])):
                    er = Ref(Box_(el))
                    f = it.call('structs::text_element::TextElement::get_run_properties', [er])
                    bold = deref_all(it.call('structs::font::Font::get_bold', [f.fields[0]])) if f.variant == 1 else False
                    runs.append((list(deref_all(it.call('structs::text_element::TextElement::get_text', [er])).chars), bold))
                out.append(('rich', runs))
            elif t.variant == 1:
                v = it.call('structs::text::Text::get_value', [t.fields[0]])
                out.append(('text', [(list(deref_all(v).chars), False)]))
            else: out.append(('empty', []))
        return out
    def run(self, it, ctx, res):
        from engine import cryptomodel as cm
        from harness.rt import conj
        it.world = cm.World()
        try:
            ca, ka, pa = self.value(it, ctx, 'a_'); cb, kb, pb = self.value(it, ctx, 'b_')
            table = Box_(it.call('<structs::shared_string_table::SharedStringTable as std::default::Default>::default', []))
            for c in (ca, cb): it.call('structs::shared_string_table::SharedStringTable::set_cell', [Ref(table), it.call(CELL + 'get_cell_value', [Ref(c)])])
            before = self.items(it, table)
            rec = xmlmodel.Recorder()
            it.call('structs::shared_string_table::SharedStringTable::write_to', [Ref(table), Ref(Box_(rec))])
            evs = rec.events
            back = Box_(it.call('<structs::shared_string_table::SharedStringTable as std::default::Default>::default', []))
            rd = xmlmodel.XmlReader(evs[1:], trim=False)          # reader::xlsx::shared_strings::read: trim_text(false)
            it.call('structs::shared_string_table::SharedStringTable::set_attributes::<&[u8]>', [Ref(back), Ref(Box_(rd)), Ref(Box_(evs[0].fields[0]))])
            after = self.items(it, back)
        except Panic as e:
            self.fail(ctx, res, 'no-panic', str(e), info={'kinds': [ka, kb]}); return
        info = {'kinds': [ka, kb], 'items': len(before)}
        self.oblige(ctx, res, 'same-number-of-items', len(after) == len(before), info=dict(info, after=len(after)))
        if len(after) != len(before): return
        for i, (b, a) in enumerate(zip(before, after)):
            okstruct = a[0] == b[0] and len(a[1]) == len(b[1]) and all(len(x[0]) == len(y[0]) and x[1] == y[1] for x, y in zip(a[1], b[1]))
            self.oblige(ctx, res, 'item-keeps-kind-runs-and-text', conj([chars_eq(x[0], y[0]) if x[0] else True for x, y in zip(a[1], b[1])]) if okstruct else False, info=dict(info, item=i, before=b[0], after=a[0]))
    def case_of(self, v):
        m = v['model']
        f = lambda t: [SKINDS[m[t + 'kind']], ''.join(chr(m.get('%st%d' % (t, i), 97)) for i in range(m.get(t + 'len', 0))), 1]
        c = {'a': f('a_'), 'b': f('b_'), 'oblig': v['oblig']}; c['show'] = dict(c); return c
    def confirm(self, case, profile):
        a, b = case['a'], case['b']
        r = native.run_cases([['sst_pair', a[0], a[1], b[0], b[1], a[2], b[2]]], profile, timeout_each=60)[0]
        if r[0] != 'ok': return True, 'cells %r / %r -> %r' % (a, b, r)
        before, after = native.unhx(r[1][0]), native.unhx(r[1][1])
        return before != after, 'cells A1/A2 before save %r, after reload %r' % (before, after)

def harnesses(tier):
    return [CellTrip(tier), SharedStringIntern(tier), SharedStringsPart(tier)]
OPTIONS = {'want_smir': True}
