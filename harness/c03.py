"""C03 (kernel) — the reader expands shared formulas like an independent decoder: child text = anchor text translated by (child - anchor)."""
import z3
from engine.core import *
from engine.check import Harness, concrete
from engine import native, containers
from harness.c17 import MAXC, MAXR, sref, iref, coord_str, sym_coord, chars_eq
from harness import fskel
from harness.c09 import expected_pieces, any_eq, ref_translate, FML

CF = 'structs::cell_formula::CellFormula::'
class SharedFormula(Harness):
    name = 'shared_formula.expansion'; property_id = 'C03'
    entry = [CF + 'set_attributes', FML + 'parse_to_tokens', FML + 'adjustment_formula_coordinate', FML + 'render']
    def __init__(self, tier):
        self.names = [s.name for s in fskel.SKELETONS]
        self.small = ([2, 12], [2, 5]) if tier == 'quick' else ([1, 30], [1, 12])
        self.doc = 'CellFormula::set_attributes for a shared-formula child (<f t="shared" si="0"/>) whose anchor formula was registered through the real tokenizer: the text shown for the child is the anchor text translated by (child - anchor) on all relative parts, $ parts untouched'
        self.bounds = {'skeletons': self.names, 'single_slot_domain': 'whole grid', 'multi_slot_domain': {'columns': self.small[0], 'rows': self.small[1]}, 'anchor_and_child': 'columns 2..5, rows 2..5, child at or right of / below the anchor (offsets 0..3)', 'ref': 'any rectangle in 1..6 x 1..6 holding anchor and child (the anchor need not be its first corner); the anchor registers the block through the real set_attributes', 'locks': 'slot 0: all four, slot 1: none/both, others relative'}
    def setup(self, it):
        from engine import xmlmodel
        xmlmodel.install(it); xmlmodel.install_events(it)
    def run(self, it, ctx, res):
        k = ctx.sym_int('skel', 0, len(self.names) - 1); k = next(i for i in range(len(self.names)) if ctx.branch(k == i))
        sk = fskel.by_name(self.names[k])
        nslots = len({s.idx for s in sk.slots()})
        dom_c, dom_r = ([1, MAXC], [1, MAXR]) if nslots == 1 else self.small
        cd_c, cd_r = [2, 5], [2, 5]        # anchor and child cells (only their difference matters to the expansion)
        f = fskel.Filled(ctx, sk, dom_c, dom_r)
        ac = ctx.sym_int('anchor_c', cd_c[0], cd_c[1]); ar = ctx.sym_int('anchor_r', cd_r[0], cd_r[1])
        cc = ctx.sym_int('child_c', cd_c[0], cd_c[1]); cr = ctx.sym_int('child_r', cd_r[0], cd_r[1])
        ctx.assume(z3.And(cc >= ac, cr >= ar))
        dc, dr = cc - ac, cr - ar
        text = f.text(ctx)
        newvals, dead = {}, set()
        for t in f.tokens():
            leaves = False
            for sl in t:
                c, r, lc, lr = f.vals[sl.idx]
                nc = c if (c is None or lc) else c + dc; nr = r if (r is None or lr) else r + dr
                newvals[sl.idx] = [nc, nr, lc, lr]
                conds = ([nc > MAXC] if c is not None and not lc else []) + ([nr > MAXR] if r is not None and not lr else [])
                if conds and ctx.branch(z3.Or(*conds)): leaves = True
            if leaves: dead.add(id(t))
        info = {'skeleton': sk.name}
        # the block's ref: any rectangle that holds anchor and child; the anchor need not be its first corner
        c1 = ctx.sym_int('ref_c1', 1, 5); r1 = ctx.sym_int('ref_r1', 1, 5); c2 = ctx.sym_int('ref_c2', 2, 6); r2 = ctx.sym_int('ref_r2', 2, 6)
        ctx.assume(z3.And(c1 <= ac, r1 <= ar, c2 >= cc, r2 >= cr))
        ref_text = sym_coord(ctx, c1, r1, False, False, 'rf1') + [58] + sym_coord(ctx, c2, r2, False, False, 'rf2')
        attrs = {'t': S('shared'), 'si': S('0'), 'ref': SStr(ref_text)}
        def get_attribute(it_, e, key):
            kname = ''.join(chr(b) for b in deref_all(key))
            return SOME(SStr(list(attrs[kname].chars))) if kname in attrs else NONE()
        it.stubs = {'reader::driver::get_attribute': get_attribute}
        try:
            # the anchor cell registers the block through the real reader code (formula text as the element's text node)
            from engine import xmlmodel
            shared = containers.HMap()
            anchor_cf = Box_(it.call('<structs::cell_formula::CellFormula as std::default::Default>::default', []))
            rd = xmlmodel.XmlReader([Adt('Text', [xmlmodel.TextObj(xmlmodel._partial(it, text))]), Adt('End', [xmlmodel.EndObj('f')])], trim=True)
            it.call(CF + 'set_attributes::<&[u8]>', [Ref(anchor_cf), Ref(Box_(rd)), Ref(Box_('BYTESSTART')), False, sref(SStr(sym_coord(ctx, ac, ar, False, False, 'an'))), Ref(Box_(shared))])
            if len(shared.items) != 1: self.fail(ctx, res, 'anchor-registers-the-block', 'shared list has %d entries' % len(shared.items), info=info); return
            del attrs['ref']
            cf = Box_(it.call('<structs::cell_formula::CellFormula as std::default::Default>::default', []))
            it.call(CF + 'set_attributes::<&[u8]>', [Ref(cf), Ref(Box_('READER')), Ref(Box_('BYTESSTART')), True, sref(SStr(sym_coord(ctx, cc, cr, False, False, 'ch'))), Ref(Box_(shared))])
            out = deref_all(it.call(CF + 'get_text', [Ref(cf)]))
        except Panic as e:
            self.fail(ctx, res, 'no-panic', str(e), info=info); return
        finally: it.stubs = {}
        variants = expected_pieces(ctx, f, newvals, dead)
        self.oblige(ctx, res, 'child==translate(anchor, child-anchor)', any_eq(out.chars, variants), info=info)
    def case_of(self, v):
        m = v['model']; sk = fskel.by_name(self.names[m['skel']])
        c = {'skeleton': sk.name, 'formula': fskel.concrete_text(sk, fskel.model_vals(sk, m)), 'anchor': [m['anchor_c'], m['anchor_r']], 'child': [m['child_c'], m['child_r']], 'ref': coord_str(m.get('ref_c1', 1), m.get('ref_r1', 1), 0, 0) + ':' + coord_str(m.get('ref_c2', 6), m.get('ref_r2', 6), 0, 0)}
        c['show'] = dict(c); return c
    def confirm(self, case, profile):
        (ac, ar), (cc, cr) = case['anchor'], case['child']
        r = native.run_cases([['shared_formula', case['formula'], coord_str(ac, ar, 0, 0), coord_str(cc, cr, 0, 0), case.get('ref', '')]], profile, timeout_each=60)[0]
        exp = ref_translate(case['formula'], cc - ac, cr - ar)
        got = native.unhx(r[1][0]) if r[0] == 'ok' else None
        return (r[0] != 'ok' or got not in exp), 'shared formula %r anchored at %s, child %s reads as %r expected %r' % (case['formula'], coord_str(ac, ar, 0, 0), coord_str(cc, cr, 0, 0), got if r[0] == 'ok' else r, exp[0])

def harnesses(tier):
    return [SharedFormula(tier)]
OPTIONS = {'want_smir': True}
