"""C04 (kernel) — re-saving is stable: an attribute value written by the XML driver and read back by the reader's driver is the
same text again (one escape on write is undone by exactly one unescape on read), so a second generation is a fixed point."""
import z3
from engine.core import *
from engine.check import Harness, concrete
from engine import native, xmlmodel
from harness.c17 import sref, iref, chars_eq

class AttributeChannel(Harness):
    name = 'attribute.write_read'; property_id = 'C04'
    entry = ['writer::driver::write_start_tag', 'reader::driver::get_attribute', 'reader::driver::get_attribute_value']
    def __init__(self, tier):
        self.maxn = 4 if tier == 'quick' else 5
        self.doc = 'an attribute value of 1..%d symbolic characters written with writer::driver::write_start_tag and read back with reader::driver::get_attribute, twice (two generations), quick-xml by contract model (escape on extend_attributes, raw values from attributes(), unescape)' % self.maxn
        self.bounds = {'value_chars': [1, self.maxn], 'alphabet': 'tab, line feed, carriage return, every character U+0020..U+007E, and U+00E9 (all XML-special characters are inside)', 'generations': 2}
    def setup(self, it): xmlmodel.install(it)
    def roundtrip(self, it, value):
        w = xmlmodel.Recorder()
        attrs = [[sref('name'), sref(SStr(value))]]
        it.call('writer::driver::write_start_tag::<&str>', [Ref(Box_(w)), sref('e'), attrs, True])
        ev = w.events[-1]
        elem = ev.fields[0]
        o = it.call('reader::driver::get_attribute', [Ref(Box_(elem)), Ref(Box_([ord(c) for c in 'name']))])
        return o
    def run(self, it, ctx, res):
        n = ctx.sym_int('len', 1, self.maxn); n = next(k for k in range(1, self.maxn + 1) if ctx.branch(n == k))
        cs = [ctx.sym_int('v%d' % i, 9, 0xE9) for i in range(n)]
        for c in cs: ctx.define(z3.Or(c == 9, c == 10, c == 13, z3.And(c >= 32, c <= 126), c == 0xE9))
        try:
            g1 = self.roundtrip(it, cs)
            if g1.variant != 1: self.fail(ctx, res, 'attribute-found', 'attribute lost', info={'len': n}); return
            v1 = deref_all(g1.fields[0]).chars
            self.oblige(ctx, res, 'generation1==original', chars_eq(v1, cs) if len(v1) == len(cs) else False, info={'len': n, 'gen1_len': len(v1)})
            g2 = self.roundtrip(it, v1)
            v2 = deref_all(g2.fields[0]).chars if g2.variant == 1 else None
            self.oblige(ctx, res, 'generation2==generation1', False if v2 is None or len(v2) != len(v1) else chars_eq(v2, v1), info={'len': n})
        except Panic as e:
            self.fail(ctx, res, 'no-panic', str(e), info={'len': n})
    def case_of(self, v):
        m = v['model']; t = ''.join(chr(m['v%d' % i]) for i in range(m['len'])); c = {'text': t, 'oblig': v['oblig']}; c['show'] = dict(c); return c
    def confirm(self, case, profile):
        r = native.run_cases([['attr_generations', case['text']]], profile, timeout_each=60)[0]
        if r[0] != 'ok': return True, 'attribute %r -> %r' % (case['text'], r)
        gens = [native.unhx(x) for x in r[1]]
        want = 'location=%s ' % case['text']
        return not all(g.startswith(want) for g in gens), 'hyperlink location %r over three save/load generations: %r' % (case['text'], gens)

from harness.c05 import ColumnsTrip
class ColumnsResave(ColumnsTrip):
    """the <cols> block of a loaded sheet is rewritten from the column records: everything the records model (bestFit too) must come back"""
    name = 'columns.write_read'; property_id = 'C04'
    fields = ('width', 'hidden', 'best_fit', 'style')

def harnesses(tier):
    return [AttributeChannel(tier), ColumnsResave(tier)]
OPTIONS = {'want_smir': True}
