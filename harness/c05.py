"""C05 (kernel) — style interning never merges different components: the interning keys are injective."""
import z3
from engine.core import *
from engine.check import Harness, concrete
from engine import native, cryptomodel as cm
from engine.models import F64Text
from harness.c17 import sref, iref, chars_eq

FONT = 'structs::font::Font::'
class SizeVal(F64Text):
    """an f64 font size that is a small positive integer (printed without fraction by f64::to_string)"""
    def __init__(self, chars, num): super().__init__(chars); self.num = num
def sym_font(it, ctx, tag, maxname):
    n = ctx.sym_int(tag + 'nlen', 1, maxname); n = next(k for k in range(1, maxname + 1) if ctx.branch(n == k))
    name = [ctx.sym_int('%sname%d' % (tag, i), 48, 90) for i in range(n)]     # digits and capital letters
    size = ctx.sym_int(tag + 'size', 1, 99)
    from harness.c17 import sym_digits
    sz = SizeVal(sym_digits(ctx, size, tag + 'sz', 2), size)
    bold = ctx.branch(ctx.sym_bool(tag + 'bold'))
    f = Box_(it.call('<structs::font::Font as std::default::Default>::default', []))
    it.call(FONT + 'set_name::<&str>', [Ref(f), sref(SStr(name))])
    it.call(FONT + 'set_size', [Ref(f), sz])
    it.call(FONT + 'set_bold', [Ref(f), bold])
    return f, {'name': name, 'size': size, 'bold': bold}

class FontKey(Harness):
    name = 'font.key_injective'; property_id = 'C05'
    entry = [FONT + 'get_hash_code', 'structs::fonts::Fonts::set_style']
    classes = {}
    def __init__(self, tier):
        self.maxname = 2 if tier == 'quick' else 3
        self.doc = 'two fonts with symbolic name (1..%d characters), size (1..99) and bold flag: Fonts::set_style must give them the same index only if they are equal (md5 is an injective free symbol, so equal keys mean equal key text)' % self.maxname
        self.bounds = {'name_chars': [1, self.maxname], 'name_alphabet': '0-9, A-Z and the punctuation between', 'size': [1, 99], 'bold': [False, True]}
    def setup(self, it):
        cm.install(it); cm.install_digests(it)
    def run(self, it, ctx, res):
        it.world = cm.World()
        fa, a = sym_font(it, ctx, 'a_', self.maxname); fb, b = sym_font(it, ctx, 'b_', self.maxname)
        try:
            fonts = Box_(it.call('<structs::fonts::Fonts as std::default::Default>::default', []))
            ids = []
            for f in (fa, fb):
                st = Box_(it.call('<structs::style::Style as std::default::Default>::default', []))
                it.call('structs::style::Style::set_font', [Ref(st), f.v])
                ids.append(it.call('structs::fonts::Fonts::set_style', [Ref(fonts), Ref(st)]))
            count = len(deref_all(it.call('structs::fonts::Fonts::get_font', [Ref(fonts)])))
        except Panic as e:
            self.fail(ctx, res, 'no-panic', str(e)); return
        same = z3.And(chars_eq(a['name'], b['name']) if len(a['name']) == len(b['name']) else False, a['size'] == b['size'], a['bold'] == b['bold'])
        merged = ids[0] == ids[1] if not (isinstance(ids[0], int) and isinstance(ids[1], int)) else ids[0] == ids[1]
        if is_sym(merged): merged = ctx.branch(merged)
        info = {'ids': [str(i) for i in ids], 'table': count}
        if merged: self.oblige(ctx, res, 'same-index=>equal-fonts', same, info=info)
        else: self.oblige(ctx, res, 'different-index=>different-fonts', z3.Not(same) if is_sym(same) else (not same), info=info)
    def case_of(self, v):
        m = v['model']
        f = lambda t: {'name': ''.join(chr(m['%sname%d' % (t, i)]) for i in range(m[t + 'nlen'])), 'size': m[t + 'size'], 'bold': bool(m[t + 'bold'])}
        c = {'a': f('a_'), 'b': f('b_')}; c['show'] = dict(c); return c
    def confirm(self, case, profile):
        a, b = case['a'], case['b']
        r = native.run_cases([['font_roundtrip', a['name'], a['size'], a['bold'], b['name'], b['size'], b['bold']]], profile, timeout_each=60)[0]
        if r[0] != 'ok': return True, 'two fonts %r / %r -> %r' % (a, b, r)
        got = [native.unhx(x) for x in r[1]]
        exp = ['%s/%s/%s' % (a['name'], a['size'], str(a['bold']).lower()), '%s/%s/%s' % (b['name'], b['size'], str(b['bold']).lower())]
        return got != exp, 'cells A1/A2 with fonts %r after save and reload: %r' % (exp, got)
class FillKey(FontKey):
    name = 'fill.key_injective'; property_id = 'C05'
    entry = ['structs::fills::Fills::set_style', 'structs::fill::Fill::get_hash_code', 'structs::pattern_fill::PatternFill::get_hash_code', 'structs::color::Color::get_hash_code']
    def __init__(self, tier):
        self.maxname = 2 if tier == 'quick' else 3
        self.doc = 'two pattern fills whose foreground and background colours carry symbolic ARGB strings (0..%d characters each, absent allowed): Fills::set_style gives the same index only to equal fills' % self.maxname
        self.bounds = {'argb_chars': [0, self.maxname], 'alphabet': '0-9A-Z', 'colours': ['foreground', 'background'], 'absent_colour': True}
    def sym_fill(self, it, ctx, tag):
        out = {}
        fill = Box_(it.call('<structs::fill::Fill as std::default::Default>::default', []))
        pf = it.call('structs::fill::Fill::get_pattern_fill_mut', [Ref(fill)])
        for which in ('foreground', 'background'):
            if ctx.branch(ctx.sym_bool('%s%s_present' % (tag, which))):
                n = ctx.sym_int('%s%s_len' % (tag, which), 0, self.maxname); n = next(k for k in range(self.maxname + 1) if ctx.branch(n == k))
                cs = [ctx.sym_int('%s%s%d' % (tag, which, i), 48, 90) for i in range(n)]
                col = Box_(it.call('<structs::color::Color as std::default::Default>::default', []))
                it.call('structs::color::Color::set_argb::<&str>', [Ref(col), sref(SStr(cs))])
                it.call('structs::pattern_fill::PatternFill::set_%s_color' % which, [pf, col.v])
                out[which] = cs
            else: out[which] = None
        return fill, out
    def run(self, it, ctx, res):
        it.world = cm.World()
        fa, a = self.sym_fill(it, ctx, 'a_'); fb, b = self.sym_fill(it, ctx, 'b_')
        try:
            fills = Box_(it.call('<structs::fills::Fills as std::default::Default>::default', []))
            ids = []
            for f in (fa, fb):
                st = Box_(it.call('<structs::style::Style as std::default::Default>::default', []))
                it.call('structs::style::Style::set_fill', [Ref(st), f.v])
                ids.append(it.call('structs::fills::Fills::set_style', [Ref(fills), Ref(st)]))
        except Panic as e:
            self.fail(ctx, res, 'no-panic', str(e)); return
        def eqc(x, y):
            if x is None or y is None: return x is None and y is None
            return chars_eq(x, y) if len(x) == len(y) else False
        parts = [eqc(a[w], b[w]) for w in ('foreground', 'background')]
        same = False if any(p_ is False for p_ in parts) else (z3.And(*[p_ for p_ in parts if p_ is not True]) if any(p_ is not True for p_ in parts) else True)
        merged = ids[0] == ids[1]
        if is_sym(merged): merged = ctx.branch(merged)
        if merged: self.oblige(ctx, res, 'same-index=>equal-fills', same, info={'ids': [str(i) for i in ids]})
        else: self.oblige(ctx, res, 'different-index=>different-fills', (not same) if isinstance(same, bool) else z3.Not(same), info={'ids': [str(i) for i in ids]})
    def case_of(self, v):
        m = v['model']
        def f(t):
            o = {}
            for w in ('foreground', 'background'):
                o[w] = ''.join(chr(m['%s%s%d' % (t, w, i)]) for i in range(m.get('%s%s_len' % (t, w), 0))) if m.get('%s%s_present' % (t, w)) else None
            return o
        c = {'a': f('a_'), 'b': f('b_')}; c['show'] = dict(c); return c
    def confirm(self, case, profile):
        enc = lambda d: ';'.join('%s=%s' % (k, '-' if v is None else v) for k, v in sorted(d.items()))
        r = native.run_cases([['fill_roundtrip', enc(case['a']), enc(case['b'])]], profile, timeout_each=60)[0]
        if r[0] != 'ok': return True, 'two fills %r -> %r' % (case['show'], r)
        got = [native.unhx(x) for x in r[1]]
        return got != [enc(case['a']), enc(case['b'])], 'cells A1/A2 with fills %r / %r after save and reload: %r' % (enc(case['a']), enc(case['b']), got)

HexText = cm.HexText

def harnesses(tier):
    return [FontKey(tier), FillKey(tier)]
