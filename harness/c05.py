"""C05 (kernel) — style interning never merges different components: the interning keys are injective."""
import z3
import re
from engine.core import *
from engine.check import Harness, concrete
from engine import native, cryptomodel as cm
from engine.models import F64Text, B
from harness.c17 import sref, iref, chars_eq

FONT = 'structs::font::Font::'
class SizeVal(F64Text):
    """an f64 font size that is a small positive integer (printed without fraction by f64::to_string)"""
    def __init__(self, chars, num): super().__init__(chars); self.num = num
def sym_font(it, ctx, tag, maxname):
    n = ctx.sym_int(tag + 'nlen', 1, maxname); n = next(k for k in range(1, maxname + 1) if ctx.branch(n == k))
    name = [ctx.sym_int('%sname%d' % (tag, i), 48, 90) for i in range(n)]     # digits and capital letters
    size = ctx.sym_int(tag + 'size', 1, 99)
    from harness.c17 import sym_digits
    sz = SizeVal(sym_digits(ctx, size, tag + 'sz', 2), size)
    bold = ctx.branch(ctx.sym_bool(tag + 'bold'))
    f = Box_(it.call('<structs::font::Font as std::default::Default>::default', []))
    it.call(FONT + 'set_name::<&str>', [Ref(f), sref(SStr(name))])
    it.call(FONT + 'set_size', [Ref(f), sz])
    it.call(FONT + 'set_bold', [Ref(f), bold])
    return f, {'name': name, 'size': size, 'bold': bold}

class FontKey(Harness):
    name = 'font.key_injective'; property_id = 'C05'
    entry = [FONT + 'get_hash_code', 'structs::fonts::Fonts::set_style']
    classes = {}
    def __init__(self, tier):
        self.maxname = 2 if tier == 'quick' else 3
        self.doc = 'two fonts with symbolic name (1..%d characters), size (1..99) and bold flag: Fonts::set_style must give them the same index only if they are equal (md5 is an injective free symbol, so equal keys mean equal key text)' % self.maxname
        self.bounds = {'name_chars': [1, self.maxname], 'name_alphabet': '0-9, A-Z and the punctuation between', 'size': [1, 99], 'bold': [False, True]}
    def setup(self, it):
        cm.install(it); cm.install_digests(it)
    def run(self, it, ctx, res):
        it.world = cm.World()
        fa, a = sym_font(it, ctx, 'a_', self.maxname); fb, b = sym_font(it, ctx, 'b_', self.maxname)
        try:
            fonts = Box_(it.call('<structs::fonts::Fonts as std::default::Default>::default', []))
            ids = []
            for f in (fa, fb):
                st = Box_(it.call('<structs::style::Style as std::default::Default>::default', []))
                it.call('structs::style::Style::set_font', [Ref(st), f.v])
                ids.append(it.call('structs::fonts::Fonts::set_style', [Ref(fonts), Ref(st)]))
            count = len(deref_all(it.call('structs::fonts::Fonts::get_font', [Ref(fonts)])))
        except Panic as e:
            self.fail(ctx, res, 'no-panic', str(e)); return
        same = z3.And(chars_eq(a['name'], b['name']) if len(a['name']) == len(b['name']) else False, a['size'] == b['size'], a['bold'] == b['bold'])
        merged = ids[0] == ids[1] if not (isinstance(ids[0], int) and isinstance(ids[1], int)) else ids[0] == ids[1]
        if is_sym(merged): merged = ctx.branch(merged)
        info = {'ids': [str(i) for i in ids], 'table': count}
        if merged: self.oblige(ctx, res, 'same-index=>equal-fonts', same, info=info)
        else: self.oblige(ctx, res, 'different-index=>different-fonts', z3.Not(same) if is_sym(same) else (not same), info=info)
    def case_of(self, v):
        m = v['model']
        f = lambda t: {'name': ''.join(chr(m['%sname%d' % (t, i)]) for i in range(m[t + 'nlen'])), 'size': m[t + 'size'], 'bold': bool(m[t + 'bold'])}
        c = {'a': f('a_'), 'b': f('b_')}; c['show'] = dict(c); return c
    def confirm(self, case, profile):
        a, b = case['a'], case['b']
        r = native.run_cases([['font_roundtrip', a['name'], a['size'], a['bold'], b['name'], b['size'], b['bold']]], profile, timeout_each=60)[0]
        if r[0] != 'ok': return True, 'two fonts %r / %r -> %r' % (a, b, r)
        got = [native.unhx(x) for x in r[1]]
        exp = ['%s/%s/%s' % (a['name'], a['size'], str(a['bold']).lower()), '%s/%s/%s' % (b['name'], b['size'], str(b['bold']).lower())]
        return got != exp, 'cells A1/A2 with fonts %r after save and reload: %r' % (exp, got)
class FillKey(FontKey):
    name = 'fill.key_injective'; property_id = 'C05'
    entry = ['structs::fills::Fills::set_style', 'structs::fill::Fill::get_hash_code', 'structs::pattern_fill::PatternFill::get_hash_code', 'structs::color::Color::get_hash_code']
    def __init__(self, tier):
        self.maxname = 2 if tier == 'quick' else 3
        self.doc = 'two pattern fills whose foreground and background colours carry symbolic ARGB strings (0..%d characters each, absent allowed): Fills::set_style gives the same index only to equal fills' % self.maxname
        self.bounds = {'argb_chars': [0, self.maxname], 'alphabet': '0-9A-Z', 'colours': ['foreground', 'background'], 'absent_colour': True}
    def sym_fill(self, it, ctx, tag):
        out = {}
        fill = Box_(it.call('<structs::fill::Fill as std::default::Default>::default', []))
        pf = it.call('structs::fill::Fill::get_pattern_fill_mut', [Ref(fill)])
        for which in ('foreground', 'background'):
            if ctx.branch(ctx.sym_bool('%s%s_present' % (tag, which))):
                n = ctx.sym_int('%s%s_len' % (tag, which), 0, self.maxname); n = next(k for k in range(self.maxname + 1) if ctx.branch(n == k))
                cs = [ctx.sym_int('%s%s%d' % (tag, which, i), 48, 90) for i in range(n)]
                col = Box_(it.call('<structs::color::Color as std::default::Default>::default', []))
                it.call('structs::color::Color::set_argb::<&str>', [Ref(col), sref(SStr(cs))])
                it.call('structs::pattern_fill::PatternFill::set_%s_color' % which, [pf, col.v])
                out[which] = cs
            else: out[which] = None
        return fill, out
    def run(self, it, ctx, res):
        it.world = cm.World()
        fa, a = self.sym_fill(it, ctx, 'a_'); fb, b = self.sym_fill(it, ctx, 'b_')
        try:
            fills = Box_(it.call('<structs::fills::Fills as std::default::Default>::default', []))
            ids = []
            for f in (fa, fb):
                st = Box_(it.call('<structs::style::Style as std::default::Default>::default', []))
                it.call('structs::style::Style::set_fill', [Ref(st), f.v])
                ids.append(it.call('structs::fills::Fills::set_style', [Ref(fills), Ref(st)]))
        except Panic as e:
            self.fail(ctx, res, 'no-panic', str(e)); return
        def eqc(x, y):
            if x is None or y is None: return x is None and y is None
            return chars_eq(x, y) if len(x) == len(y) else False
        parts = [eqc(a[w], b[w]) for w in ('foreground', 'background')]
        same = False if any(p_ is False for p_ in parts) else (z3.And(*[p_ for p_ in parts if p_ is not True]) if any(p_ is not True for p_ in parts) else True)
        merged = ids[0] == ids[1]
        if is_sym(merged): merged = ctx.branch(merged)
        if merged: self.oblige(ctx, res, 'same-index=>equal-fills', same, info={'ids': [str(i) for i in ids]})
        else: self.oblige(ctx, res, 'different-index=>different-fills', (not same) if isinstance(same, bool) else z3.Not(same), info={'ids': [str(i) for i in ids]})
    def case_of(self, v):
        m = v['model']
        def f(t):
            o = {}
            for w in ('foreground', 'background'):
                o[w] = ''.join(chr(m['%s%s%d' % (t, w, i)]) for i in range(m.get('%s%s_len' % (t, w), 0))) if m.get('%s%s_present' % (t, w)) else None
            return o
        c = {'a': f('a_'), 'b': f('b_')}; c['show'] = dict(c); return c
    def confirm(self, case, profile):
        enc = lambda d: ';'.join('%s=%s' % (k, '-' if v is None else v) for k, v in sorted(d.items()))
        r = native.run_cases([['fill_roundtrip', enc(case['a']), enc(case['b'])]], profile, timeout_each=60)[0]
        if r[0] != 'ok': return True, 'two fills %r -> %r' % (case['show'], r)
        got = [native.unhx(x) for x in r[1]]
        return got != [enc(case['a']), enc(case['b'])], 'cells A1/A2 with fills %r / %r after save and reload: %r' % (enc(case['a']), enc(case['b']), got)

HexText = cm.HexText

NF = 'structs::numbering_format::NumberingFormat::'
NFS = 'structs::numbering_formats::NumberingFormats::'
NF_ALPHABET = [48, 35, 38, 60, 34, 97, 59, 32, 0xE9]        # 0 # & < " a ; space e-acute
def sym_code(ctx, tag, maxn):
    n = ctx.sym_int(tag + 'len', 1, maxn); n = next(k for k in range(1, maxn + 1) if ctx.branch(n == k))
    cs = [ctx.sym_int('%s%d' % (tag, i), 32, 0xE9) for i in range(n)]
    for c in cs: ctx.define(z3.Or(*[c == a for a in NF_ALPHABET]))
    return cs
def table_code(it, table, idx):
    """format code registered under idx in a NumberingFormats object, or None"""
    hm = deref_all(it.call(NFS + 'get_numbering_format', [Ref(table)]))
    for k, v in hm.items:
        k = deref_all(k)
        if (B(it, k == idx) if is_sym(k) or is_sym(idx) else k == idx):
            return deref_all(it.call(NF + 'get_format_code', [Ref(Box_(deref_all(v)))])).chars
    return None
class NumFmtTrip(Harness):
    name = 'numfmt.write_read'; property_id = 'C05'
    entry = [NF + 'set_format_code', NFS + 'set_style', NFS + 'write_to', NF + 'write_to', NFS + 'set_attributes', NF + 'set_attributes']
    classes = {}
    def __init__(self, tier):
        self.maxn = 3 if tier == 'quick' else 4
        self.doc = 'a custom number-format code of 1..%d symbolic characters given to a style, interned by NumberingFormats::set_style, written by NumberingFormats::write_to into an XML event stream and read back by NumberingFormats::set_attributes: the id the cell format refers to carries the same code again' % self.maxn
        self.bounds = {'code_chars': [1, self.maxn], 'alphabet': [chr(c) for c in NF_ALPHABET], 'table': 'empty before the style is interned', 'xml': 'quick-xml by contract model (escape on write, raw attribute values, unescape)'}
    def setup(self, it):
        from engine import xmlmodel
        cm.install(it); cm.install_digests(it); xmlmodel.install(it); xmlmodel.install_events(it)
    def run(self, it, ctx, res):
        from engine import xmlmodel
        it.world = cm.World()
        code = sym_code(ctx, 'c', self.maxn)
        info = {'len': len(code)}
        try:
            st = Box_(it.call('<structs::style::Style as std::default::Default>::default', []))
            nf = it.call('structs::style::Style::get_number_format_mut', [Ref(st)])
            it.call(NF + 'set_format_code::<&str>', [nf, sref(SStr(code))])
            if deref_all(it.call(NF + 'get_is_build_in', [nf])): return 'built-in code'
            table = Box_(it.call('<%s as std::default::Default>::default' % NFS[:-2], []))
            idx = it.call(NFS + 'set_style', [Ref(table), Ref(st)])
            rec = xmlmodel.Recorder()
            it.call(NFS + 'write_to', [Ref(table), Ref(Box_(rec))])
            evs = rec.events
            info['events'] = len(evs)
            if not evs: self.fail(ctx, res, 'format-written', 'no numFmts element', info=info); return
            back = Box_(it.call('<%s as std::default::Default>::default' % NFS[:-2], []))
            rd = xmlmodel.XmlReader(evs[1:], trim=True)
            it.call(NFS + 'set_attributes::<&[u8]>', [Ref(back), Ref(Box_(rd)), Ref(Box_(evs[0].fields[0]))])
            got = table_code(it, back, idx)
        except Panic as e:
            self.fail(ctx, res, 'no-panic', str(e), info=info); return
        self.oblige(ctx, res, 'same-code-under-the-id-the-cell-refers-to', False if got is None or len(got) != len(code) else chars_eq(got, code), info=dict(info, got_len=None if got is None else len(got)))
    def case_of(self, v):
        m = v['model']; c = {'code': ''.join(chr(m['c%d' % i]) for i in range(m['clen'])), 'oblig': v['oblig']}; c['show'] = dict(c); return c
    def confirm(self, case, profile):
        r = native.run_cases([['numfmt_roundtrip', case['code']]], profile, timeout_each=60)[0]
        if r[0] != 'ok': return True, 'number format %r -> %r' % (case['code'], r)
        got = native.unhx(r[1][0])
        return got != case['code'], 'cell A1 with number format %r after save and reload: %r' % (case['code'], got)
class NumFmtIntern(Harness):
    name = 'numfmt.intern_step'; property_id = 'C05'
    entry = [NFS + 'set_style', NF + 'get_hash_code']
    classes = {}
    def __init__(self, tier):
        self.maxn = 2 if tier == 'quick' else 3
        self.doc = 'inductive step of number-format interning: a table holding two custom formats under the ids 176 and 177 (either insertion order) with symbolic codes, and a style whose custom format carries a symbolic id (176..178 or the placeholder 999999) and a symbolic code: the id NumberingFormats::set_style returns is registered with exactly that code, and no existing entry changes' 
        self.bounds = {'table_entries': 2, 'ids': [176, 177], 'style_format_id': '176..178 or 999999', 'code_chars': [1, self.maxn], 'alphabet': [chr(c) for c in NF_ALPHABET]}
    def setup(self, it): cm.install(it); cm.install_digests(it)
    def mk(self, it, code, idx):
        nf = Box_(it.call('<%s as std::default::Default>::default' % NF[:-2], []))
        it.call(NF + 'set_format_code::<&str>', [Ref(nf), sref(SStr(code))])
        if deref_all(it.call(NF + 'get_is_build_in', [Ref(nf)])): return None
        it.call(NF + 'set_number_format_id_crate', [Ref(nf), idx])
        return nf
    def run(self, it, ctx, res):
        it.world = cm.World()
        codes = [sym_code(ctx, t, self.maxn) for t in ('a', 'b', 's')]
        ia = ctx.sym_int("id_a", 176, 177); ib = ctx.sym_int("id_b", 176, 177); ctx.assume(ia != ib)
        own = ctx.sym_int("id_s", 176, 179); ids = z3.If(own == 179, 999999, own)
        try:
            fa, fb, fs = self.mk(it, codes[0], ia), self.mk(it, codes[1], ib), self.mk(it, codes[2], ids)
            if fa is None or fb is None or fs is None: return 'built-in code'
            table = Box_(it.call('<%s as std::default::Default>::default' % NFS[:-2], []))
            it.call(NFS + 'set_numbering_format', [Ref(table), fa.v]); it.call(NFS + 'set_numbering_format', [Ref(table), fb.v])
            st = Box_(it.call('<structs::style::Style as std::default::Default>::default', []))
            it.call('structs::style::Style::set_numbering_format', [Ref(st), fs.v])
            r = it.call(NFS + 'set_style', [Ref(table), Ref(st)])
            got = table_code(it, table, r)
            ga, gb = table_code(it, table, ia), table_code(it, table, ib)
        except Panic as e:
            self.fail(ctx, res, 'no-panic', str(e)); return
        eq = lambda x, y: False if x is None or len(x) != len(y) else chars_eq(x, y)
        self.oblige(ctx, res, 'returned-id-carries-the-style-code', eq(got, codes[2]), info={'returned': str(r)})
        self.oblige(ctx, res, 'existing-entries-unchanged', z3.And(eq(ga, codes[0]), eq(gb, codes[1])) if (ga is not None and gb is not None and len(ga) == len(codes[0]) and len(gb) == len(codes[1])) else False, info={'returned': str(r)})
    def case_of(self, v):
        m = v['model']; f = lambda t: ''.join(chr(m['%s%d' % (t, i)]) for i in range(m[t + 'len']))
        c = {'table': [[m['id_a'], f('a')], [m['id_b'], f('b')]], 'style': [999999 if m["id_s"] == 179 else m['id_s'], f('s')], 'oblig': v['oblig']}; c['show'] = dict(c); return c
    def confirm(self, case, profile):
        t = case['table']; s = case['style']
        r = native.run_cases([['numfmt_intern', t[0][0], t[0][1], t[1][0], t[1][1], s[0], s[1]]], profile, timeout_each=60)[0]
        if r[0] != 'ok': return True, 'interning %r -> %r' % (case['show'], r)
        got = [native.unhx(x) for x in r[1]]
        return got != [s[1], t[0][1], t[1][1]], 'table %r, style format %r: codes under returned id / first / second entry: %r' % (t, s, got)

COLS = 'structs::columns::Columns::'
COL = 'structs::column::Column::'
WIDTHS = [8.38, 12.0, 12.5]
class ColumnsTrip(Harness):
    """<cols> run-length compression on write and expansion on read"""
    name = 'columns.write_read'; property_id = 'C05'
    entry = [COLS + 'write_to', COLS + 'write_to_column', COL + 'get_hash_code', COLS + 'set_attributes', COL + 'set_attributes']
    classes = {}
    fields = ('width', 'hidden', 'style')
    def __init__(self, tier):
        self.k = 2 if tier == 'quick' else 3
        self.span = self.k + 2
        self.widths = WIDTHS if tier == 'quick' else WIDTHS[:2]
        self.doc = '%d column records at symbolic pairwise distinct column numbers 1..%d (any order in the collection), each with a width out of %s, hidden and bestFit flags and a default or non-default style, written by the real Columns::write_to (adjacent equal columns are merged into one <col min max> run) into an XML event stream and read back by the real Columns::set_attributes: every column number carries the same %s again and no other column appears' % (self.k, self.span, self.widths, '/'.join(self.fields))
        self.bounds = {'columns': self.k, 'column_numbers': [1, self.span], 'widths': self.widths, 'hidden': [False, True], 'bestFit': [False, True], 'style': ['default', 'number format 0.00'], 'stylesheet': 'Stylesheet::set_style / get_style stubbed to a two-entry table (default, styled)'}
    def setup(self, it):
        from engine import xmlmodel
        cm.install(it); cm.install_digests(it); xmlmodel.install(it); xmlmodel.install_events(it)
    def styled(self, it):
        st = Box_(it.call('<structs::style::Style as std::default::Default>::default', []))
        nf = it.call('structs::style::Style::get_number_format_mut', [Ref(st)])
        it.call(NF + 'set_format_code::<&str>', [nf, sref('0.00')])
        return st
    def run(self, it, ctx, res):
        from engine import xmlmodel
        it.world = cm.World()
        nums = [ctx.sym_int('col%d' % i, 1, self.span) for i in range(self.k)]
        for i in range(self.k):
            for j in range(i): ctx.assume(nums[i] != nums[j])
        spec = []
        for i in range(self.k):
            wi = ctx.sym_int('w%d' % i, 0, len(self.widths) - 1); wi = next(x for x in range(len(self.widths)) if ctx.branch(wi == x))
            spec.append({'width': self.widths[wi], 'hidden': ctx.branch(ctx.sym_bool('hidden%d' % i)), 'best_fit': ctx.branch(ctx.sym_bool('bestfit%d' % i)), 'style': ctx.branch(ctx.sym_bool('styled%d' % i))})
        info = {'spec': spec}
        has_nf = lambda it_, style: it_.call('structs::style::Style::get_number_format', [style]).variant == 1
        it.stubs = {'structs::stylesheet::Stylesheet::set_style': lambda it_, sheet, style: 1 if has_nf(it_, style) else 0,
                    'structs::stylesheet::Stylesheet::get_style': lambda it_, sheet, idx: (self.styled(it_).v if B(it_, idx == 1) else it_.call('<structs::style::Style as std::default::Default>::default', []))}
        try:
            cols = Box_(it.call('<%s as std::default::Default>::default' % COLS[:-2], []))
            for i in range(self.k):
                c = it.call(COLS + 'get_column_mut', [Ref(cols), iref(nums[i])])
                it.call(COL + 'set_width', [c, spec[i]['width']]); it.call(COL + 'set_hidden', [c, spec[i]['hidden']]); it.call(COL + 'set_best_fit', [c, spec[i]['best_fit']])
                if spec[i]['style']: it.call(COL + 'set_style', [c, self.styled(it).v])
            sty = Box_(it.call('<structs::stylesheet::Stylesheet as std::default::Default>::default', []))
            rec = xmlmodel.Recorder()
            it.call(COLS + 'write_to', [Ref(cols), Ref(Box_(rec)), Ref(sty)])
            evs = rec.events
            info['events'] = len(evs)
            if not evs: self.fail(ctx, res, 'columns-written', 'no cols element', info=info); return
            back = Box_(it.call('<%s as std::default::Default>::default' % COLS[:-2], []))
            rd = xmlmodel.XmlReader(evs[1:], trim=True)
            it.call(COLS + 'set_attributes::<&[u8]>', [Ref(back), Ref(Box_(rd)), Ref(Box_(evs[0].fields[0])), Ref(sty)])
            listed = len(deref_all(it.call(COLS + 'get_column_collection', [Ref(back)])))
            self.oblige(ctx, res, 'no-column-invented-or-lost', listed == self.k, info=dict(info, listed=listed))
            for i in range(self.k):
                o = it.call(COLS + 'get_column', [Ref(back), iref(nums[i])])
                if o.variant != 1: self.oblige(ctx, res, 'column-present', False, info=dict(info, column=i)); continue
                c = o.fields[0]
                got = {'width': deref_all(it.call(COL + 'get_width', [c])), 'hidden': deref_all(it.call(COL + 'get_hidden', [c])), 'best_fit': deref_all(it.call(COL + 'get_best_fit', [c])),
                       'style': has_nf(it, it.call(COL + 'get_style', [c]))}
                for f in self.fields:
                    self.oblige(ctx, res, 'same-' + f, got[f] == spec[i][f], info=dict(info, column=i, got=str(got[f])))
        except Panic as e:
            self.fail(ctx, res, 'no-panic', str(e), info=info); return
        finally:
            it.stubs = {}
    def case_of(self, v):
        m = v['model']
        cols = [{'num': m['col%d' % i], 'width': self.widths[m.get('w%d' % i, 0)], 'hidden': bool(m.get('hidden%d' % i)), 'best_fit': bool(m.get('bestfit%d' % i)), 'styled': bool(m.get('styled%d' % i))} for i in range(self.k)]
        c = {'columns': cols, 'oblig': v['oblig']}; c['show'] = dict(c); return c
    def confirm(self, case, profile):
        spec = ';'.join('%d,%s,%d,%d,%d' % (c['num'], c['width'], c['hidden'], c['best_fit'], c['styled']) for c in case['columns'])
        r = native.run_cases([['columns_roundtrip', spec]], profile, timeout_each=60)[0]
        if r[0] != 'ok': return True, 'columns %r -> %r' % (case['columns'], r)
        before, after = native.unhx(r[1][0]), native.unhx(r[1][1])
        if 'best_fit' not in self.fields:
            import re as _re
            before, after = _re.sub(r'bf=\d', '', before), _re.sub(r'bf=\d', '', after)
        return before != after, 'column settings before save %r, after reload %r' % (before, after)

class SheetRows(Harness):
    """rows keep their height and hidden state: the row loop of the sheet-part writer"""
    name = 'sheet_rows.written'; property_id = 'C05'
    entry = ['writer::xlsx::worksheet::write', 'structs::row::Row::write_to']
    classes = {}
    def __init__(self, tier):
        self.nrows = 2 if tier == 'quick' else 3
        self.doc = 'the real sheet-part writer (writer::xlsx::worksheet::write, non-row children stubbed) on a worksheet with %d row records at symbolic distinct row numbers 1..%d, each hidden or not, with a custom height or not, holding one text cell or no cell at all: every row record that has a setting or a cell comes out as exactly one <row> element, in ascending order, carrying its number, its hidden flag and its height' % (self.nrows, self.nrows + 2)
        self.bounds = {'rows': self.nrows, 'row_numbers': [1, self.nrows + 2], 'hidden': [False, True], 'height': ['default', 12.75], 'cell_in_row': [False, True], 'reader': 'Row::set_attributes is covered by row.write_read'}
    def setup(self, it):
        from engine import xmlmodel
        cm.install(it); cm.install_digests(it); xmlmodel.install(it); xmlmodel.install_events(it)
    def run(self, it, ctx, res):
        from engine import xmlmodel, containers
        from harness.c12 import install_writer_stubs, Parts
        from harness.c07 import WS, new_sheet
        it.world = cm.World()
        span = self.nrows + 2
        nums = [ctx.sym_int('row%d' % i, 1, span) for i in range(self.nrows)]
        for i in range(self.nrows):
            for j in range(i): ctx.assume(nums[i] != nums[j])
        spec = [{'hidden': ctx.branch(ctx.sym_bool('hidden%d' % i)), 'height': ctx.branch(ctx.sym_bool('height%d' % i)), 'cell': ctx.branch(ctx.sym_bool('cell%d' % i))} for i in range(self.nrows)]
        info = {'spec': spec}
        captured = []
        try:
            ws = new_sheet(it)
            for i in range(self.nrows):
                r = it.call(WS + 'get_row_dimension_mut', [Ref(ws), iref(nums[i])])
                if spec[i]['hidden']: it.call('structs::row::Row::set_hidden', [r, True])
                if spec[i]['height']: it.call('structs::row::Row::set_height', [r, 12.75])
                if spec[i]['cell']:
                    cell = it.call(WS + 'get_cell_mut::<(u32, u32)>', [Ref(ws), [1, nums[i]]])
                    it.call('structs::cell::Cell::set_value_string::<&str>', [cell, sref('x')])
            sst = Box_(it.call('<structs::shared_string_table::SharedStringTable as std::default::Default>::default', []))
            sty = Box_(it.call('<structs::stylesheet::Stylesheet as std::default::Default>::default', []))
            install_writer_stubs(it, Parts())
            it.stub_patterns = [(re.compile(r'structs::writer_manager::WriterManager::<.*>::add_writer(::<.*>)?'), lambda it_, callee, wm, path, writer: (captured.append(deref_all(writer)), OK([]))[1])] + it.stub_patterns
            it.stubs = {'structs::stylesheet::Stylesheet::set_style': lambda it_, st, style: 0}
            it.call('writer::xlsx::worksheet::write::<std::io::Cursor<std::vec::Vec<u8>>>', [iref(1), Ref(ws), Ref(sst), Ref(sty), False, Ref(Box_('WRITERMNG'))])
        except Panic as e:
            self.fail(ctx, res, 'no-panic', str(e), info=info); return
        finally:
            it.stub_patterns = []; it.stubs = {}
        if len(captured) != 1: self.fail(ctx, res, 'sheet-part-written', '%d parts' % len(captured), info=info); return
        order = xmlmodel.event_order(); rows = []
        for ev in captured[0].events:
            nm = ev.variant if isinstance(ev.variant, str) else order[ev.variant]
            el = deref_all(ev.fields[0]) if ev.fields else None
            if nm in ('Start', 'Empty') and getattr(el, 'name', None) == 'row': rows.append({k: v for k, v in el.attrs})
        # a row record without any setting and without a cell has nothing a user can observe: it may or may not be written
        need = [i for i in range(self.nrows) if spec[i]['hidden'] or spec[i]['height'] or spec[i]['cell']]
        self.oblige(ctx, res, 'no-row-element-invented', len(need) <= len(rows) <= self.nrows, info=dict(info, rows=len(rows)))
        if not (len(need) <= len(rows) <= self.nrows): return
        from harness.c17 import chars_eq
        def num_of(a):
            cs = a.get('r', [])
            if not cs: return None
            v = 0
            for c in cs: v = v * 10 + (c - 48)
            return v
        got = [num_of(a) for a in rows]
        asc = z3.And(*[got[i] < got[i + 1] for i in range(len(got) - 1)]) if len(got) > 1 else True
        self.oblige(ctx, res, 'rows-ascending', asc, info=info)
        for i in need:
            conds = []
            for a, g in zip(rows, got):
                hid = ''.join(chr(c) for c in a.get('hidden', [])) == '1'; ht = ''.join(chr(c) for c in a.get('ht', []))
                okattrs = (hid == spec[i]['hidden']) and ((ht == '12.75') == spec[i]['height'])
                conds.append(z3.And(g == nums[i], okattrs) if okattrs else False)
            conds = [c for c in conds if c is not False]
            self.oblige(ctx, res, 'row-carries-its-hidden-flag-and-height', z3.Or(*conds) if conds else False, info=dict(info, row=i))
    def case_of(self, v):
        m = v['model']
        c = {'rows': [{'num': m['row%d' % i], 'hidden': bool(m.get('hidden%d' % i)), 'height': bool(m.get('height%d' % i)), 'cell': bool(m.get('cell%d' % i))} for i in range(self.nrows)], 'oblig': v['oblig']}
        c['show'] = dict(c); return c
    def confirm(self, case, profile):
        spec = ';'.join('%d,%d,%d,%d' % (r['num'], r['hidden'], r['height'], r['cell']) for r in case['rows'])
        r = native.run_cases([['rows_roundtrip', spec]], profile, timeout_each=60)[0]
        if r[0] != 'ok': return True, 'rows %r -> %r' % (case['rows'], r)
        before, after = native.unhx(r[1][0]), native.unhx(r[1][1])
        return before != after, 'row settings before save %r, after reload %r' % (before, after)

STY = 'structs::stylesheet::Stylesheet::'
class StylesheetTrip(Harness):
    """styles.xml as a whole: two cell styles interned, written, read back and resolved through cellXfs"""
    name = 'stylesheet.write_read'; property_id = 'C05'
    entry = [STY + 'set_style', STY + 'write_to', STY + 'set_attributes', STY + 'make_style', STY + 'get_style_by_cell_format', 'structs::cell_formats::CellFormats::set_attributes', 'structs::fonts::Fonts::set_attributes', 'structs::numbering_formats::NumberingFormats::set_attributes']
    classes = {}
    def __init__(self, tier):
        self.doc = 'two cell styles (bold or not, horizontal alignment set or not, number format absent / built-in 0.00 / a custom code of one symbolic character, locked flag set or not) interned by the real Stylesheet::set_style, the whole style sheet written by the real Stylesheet::write_to and read back by the real Stylesheet::set_attributes + make_style: the style found under each cell-format index has the same bold flag, alignment, number-format code and protection as the style that was interned'
        self.bounds = {'styles': 2, 'bold': [False, True], 'alignment': ['unset', 'center'], 'number_format': ['none', 'built-in 0.00', 'custom: one character out of a # ;'], 'protection': ['unset', 'locked=false'], 'fills_borders': 'default'}
    def setup(self, it):
        from engine import xmlmodel
        cm.install(it); cm.install_digests(it); xmlmodel.install(it); xmlmodel.install_events(it)
    def style(self, it, ctx, tag):
        st = Box_(it.call('<structs::style::Style as std::default::Default>::default', []))
        d = {'bold': ctx.branch(ctx.sym_bool(tag + 'bold')), 'center': ctx.branch(ctx.sym_bool(tag + 'center')), 'unlocked': ctx.branch(ctx.sym_bool(tag + 'unlocked'))}
        nf = ctx.sym_int(tag + 'nf', 0, 2); d['nf'] = next(k for k in range(3) if ctx.branch(nf == k)); d['code'] = None
        if d['bold']: it.call('structs::font::Font::set_bold', [it.call('structs::style::Style::get_font_mut', [Ref(st)]), True])
        if d['center']: it.call('structs::alignment::Alignment::set_horizontal', [it.call('structs::style::Style::get_alignment_mut', [Ref(st)]), Adt(0, [], 'HorizontalAlignmentValues')])
        if d['unlocked']: it.call('structs::protection::Protection::set_locked', [it.call('structs::style::Style::get_protection_mut', [Ref(st)]), False])
        if d['nf'] == 1: d['code'] = [ord(c) for c in '0.00']
        elif d['nf'] == 2:
            c = ctx.sym_int(tag + 'code', 35, 97); ctx.define(z3.Or(c == 97, c == 35, c == 59)); d['code'] = [c]
        if d['code'] is not None: it.call(NF + 'set_format_code::<&str>', [it.call('structs::style::Style::get_number_format_mut', [Ref(st)]), sref(SStr(d['code']))])
        return st, d
    def observe(self, it, style):
        sr = Ref(Box_(style))
        f = it.call('structs::style::Style::get_font', [sr]); a = it.call('structs::style::Style::get_alignment', [sr]); n = it.call('structs::style::Style::get_number_format', [sr]); p_ = it.call('structs::style::Style::get_protection', [sr])
        bold = deref_all(it.call('structs::font::Font::get_bold', [f.fields[0]])) if f.variant == 1 else False
        center = a.variant == 1 and deref_all(it.call('structs::alignment::Alignment::get_horizontal', [a.fields[0]])).variant == 0
        # effective values: no number format is General, no protection element is locked
        code = list(deref_all(it.call(NF + 'get_format_code', [n.fields[0]])).chars) if n.variant == 1 else [ord(c) for c in 'General']
        locked = deref_all(it.call('structs::protection::Protection::get_locked', [p_.fields[0]])) if p_.variant == 1 else True
        return bold, center, code, locked
    def run(self, it, ctx, res):
        from engine import xmlmodel
        it.world = cm.World()
        info = {}
        try:
            sheet = Box_(it.call('<structs::stylesheet::Stylesheet as std::default::Default>::default', []))
            it.call(STY + 'set_defalut_value', [Ref(sheet)])
            styles = [self.style(it, ctx, 'a_'), self.style(it, ctx, 'b_')]
            info['styles'] = [{k: (str(v) if k == 'code' else v) for k, v in d.items()} for _, d in styles]
            idx = [it.call(STY + 'set_style', [Ref(sheet), Ref(st)]) for st, _ in styles]
            rec = xmlmodel.Recorder()
            it.call(STY + 'write_to', [Ref(sheet), Ref(Box_(rec))])
            evs = rec.events
            back = Box_(it.call('<structs::stylesheet::Stylesheet as std::default::Default>::default', []))
            rd = xmlmodel.XmlReader(evs[1:], trim=True)
            it.call(STY + 'set_attributes::<&[u8]>', [Ref(back), Ref(Box_(rd)), Ref(Box_(evs[0].fields[0]))])
            it.call(STY + 'make_style', [Ref(back)])
            got = [self.observe(it, it.call(STY + 'get_style', [Ref(back), i])) for i in idx]
            want = [self.observe(it, st.v) for st, _ in styles]
        except Panic as e:
            self.fail(ctx, res, 'no-panic', '%s @ %s' % (e, str(getattr(e, '_where', ''))[:160]), info=info); return
        from harness.rt import conj
        for k, (g, w) in enumerate(zip(got, want)):
            same_code = (g[2] is None) == (w[2] is None) and (g[2] is None or (len(g[2]) == len(w[2]) and chars_eq(g[2], w[2])))
            self.oblige(ctx, res, 'style-under-its-index-is-the-interned-style', conj([g[0] == w[0], g[1] == w[1], same_code, g[3] == w[3]]), info=dict(info, style=k, index=str(idx[k])))
    def case_of(self, v):
        m = v['model']
        f = lambda t: {'bold': bool(m.get(t + 'bold')), 'center': bool(m.get(t + 'center')), 'unlocked': bool(m.get(t + 'unlocked')), 'nf': m.get(t + 'nf', 0), 'code': chr(m[t + 'code']) if (t + 'code') in m else ''}
        c = {'a': f('a_'), 'b': f('b_'), 'oblig': v['oblig']}; c['show'] = dict(c); return c
    def confirm(self, case, profile):
        enc = lambda d: '%d,%d,%d,%d,%s' % (d['bold'], d['center'], d['unlocked'], d['nf'], (d['code'] or 'a').encode().hex())
        r = native.run_cases([['styles_roundtrip', enc(case['a']), enc(case['b'])]], profile, timeout_each=60)[0]
        if r[0] != 'ok': return True, 'styles %r -> %r' % (case['show'], r)
        before, after = native.unhx(r[1][0]), native.unhx(r[1][1])
        return before != after, 'cell styles A1/A2 before save %r, after reload %r' % (before, after)

class StylesheetFileNumFmt(StylesheetTrip):
    """a styles part as other producers write it: a <numFmt> declared under an id the library treats as built-in (Excel does
    this for locale-dependent formats, e.g. 14): the file's declaration is what the cell format means"""
    name = 'stylesheet.read_declared_numfmt'
    def __init__(self, tier):
        super().__init__(tier)
        self.doc = 'the XML of a style sheet with one custom number format (written by the real Stylesheet::write_to), with the id of its <numFmt> and of the cell format that uses it replaced by a symbolic id out of 14, 22, 44, 49, 164, 176 (ids of the built-in table and free ids), read by the real Stylesheet::set_attributes + make_style: the cell format shows the code the file declares for that id'
        self.bounds = {'declared_id': [14, 22, 44, 49, 164, 176], 'code': 'one symbolic character out of a # ;'}
    def run(self, it, ctx, res):
        from engine import xmlmodel
        it.world = cm.World()
        ids = [14, 22, 44, 49, 164, 176]
        di = ctx.sym_int('declared_id', 0, len(ids) - 1); did = ids[next(k for k in range(len(ids)) if ctx.branch(di == k))]
        c = ctx.sym_int('code', 35, 97); ctx.define(z3.Or(c == 97, c == 35, c == 59))
        info = {'declared_id': did}
        try:
            sheet = Box_(it.call('<structs::stylesheet::Stylesheet as std::default::Default>::default', []))
            it.call(STY + 'set_defalut_value', [Ref(sheet)])
            st = Box_(it.call('<structs::style::Style as std::default::Default>::default', []))
            it.call(NF + 'set_format_code::<&str>', [it.call('structs::style::Style::get_number_format_mut', [Ref(st)]), sref(SStr([c]))])
            idx = it.call(STY + 'set_style', [Ref(sheet), Ref(st)])
            rec = xmlmodel.Recorder()
            it.call(STY + 'write_to', [Ref(sheet), Ref(Box_(rec))])
            evs = rec.events; old = None
            for ev in evs:          # the id the library gave the format -> the declared id, in <numFmt> and in every <xf>
                el = deref_all(ev.fields[0]) if ev.fields else None
                if getattr(el, 'name', None) == 'numFmt':
                    for k, (key, val) in enumerate(el.attrs):
                        if key == 'numFmtId': old = list(val); el.attrs[k] = (key, [ord(ch) for ch in str(did)])
            if old is None: self.fail(ctx, res, 'custom-format-written', 'no numFmt element', info=info); return
            for ev in evs:
                el = deref_all(ev.fields[0]) if ev.fields else None
                if getattr(el, 'name', None) == 'xf':
                    for k, (key, val) in enumerate(el.attrs):
                        if key == 'numFmtId' and list(val) == old: el.attrs[k] = (key, [ord(ch) for ch in str(did)])
            back = Box_(it.call('<structs::stylesheet::Stylesheet as std::default::Default>::default', []))
            rd = xmlmodel.XmlReader(evs[1:], trim=True)
            it.call(STY + 'set_attributes::<&[u8]>', [Ref(back), Ref(Box_(rd)), Ref(Box_(evs[0].fields[0]))])
            it.call(STY + 'make_style', [Ref(back)])
            got = self.observe(it, it.call(STY + 'get_style', [Ref(back), idx]))
        except Panic as e:
            self.fail(ctx, res, 'no-panic', '%s @ %s' % (e, str(getattr(e, '_where', ''))[:160]), info=info); return
        self.oblige(ctx, res, 'cell-format-shows-the-code-the-file-declares', (len(got[2]) == 1) and (got[2][0] == c), info=dict(info, got_len=len(got[2])))
    def case_of(self, v):
        m = v['model']; c = {'declared_id': [14, 22, 44, 49, 164, 176][m.get('declared_id', 0)], 'code': chr(m['code']), 'oblig': v['oblig']}; c['show'] = dict(c); return c
    def confirm(self, case, profile):
        r = native.run_cases([['declared_numfmt', case['declared_id'], case['code']]], profile, timeout_each=60)[0]
        if r[0] != 'ok': return True, 'declared numFmt %r -> %r' % (case['show'], r)
        got = native.unhx(r[1][0])
        return got != case['code'], 'a file declaring <numFmt numFmtId="%d" formatCode=%r> and using it for A1: A1 shows format %r' % (case['declared_id'], case['code'], got)

def harnesses(tier):
    from harness import rt
    return [FontKey(tier), FillKey(tier), NumFmtTrip(tier), NumFmtIntern(tier), ColumnsTrip(tier), SheetRows(tier), StylesheetTrip(tier), StylesheetFileNumFmt(tier)] + rt.harnesses_for('C05', tier)
OPTIONS = {'want_smir': True}
