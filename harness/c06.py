"""C06 (kernel) — hyperlinks come back on their own cells: the r:id written into the sheet part resolves, through the
sheet's relationship part, to the target of the same cell, for EVERY iteration order of the hash maps involved."""
import re
import z3
from engine.core import *
from engine.check import Harness, concrete
from engine import native, containers
from harness.c17 import sref, iref, coord_str
from harness.c07 import WS, new_sheet

KINDS = ['url', 'blank', 'location']
class Events:
    def __init__(self): self.tags = []
def install_recorders(it, ev):
    def start_tag(it_, callee, writer, tag, attrs, empty):
        al = []
        for kv in deref_all(attrs):
            k, v = deref_all(kv[0]), deref_all(kv[1]); al.append((pstr(k), v.chars if isinstance(v, SStr) else v))
        ev.tags.append((pstr(tag), al)); return []
    noop = lambda it_, callee, *a: []
    it.stub_patterns = [
        (re.compile(r'writer::driver::write_start_tag::<.*>'), start_tag),
        (re.compile(r'writer::driver::(write_end_tag|write_text_node|write_text_node_no_escape|write_text_node_conversion|write_new_line)::<.*>'), noop),
        (re.compile(r'structs::.*::write_to(_\w+)?(::<.*>)?'), noop),
        (re.compile(r'<structs::.* as .*>::write_to(::<.*>)?'), noop),
        (re.compile(r'quick_xml::Writer::<.*>::(new|write_event|into_inner)(::<.*>)?'), lambda it_, callee, *a: OK([]) if 'write_event' in callee else 'XMLWRITER'),
        (re.compile(r"quick_xml::events::BytesDecl::<'_>::new"), lambda it_, callee, *a: 'DECL'),
        (re.compile(r'std::io::Cursor::<.*>::(new|into_inner)'), lambda it_, callee, *a: []),
        (re.compile(r'structs::writer_manager::WriterManager::<.*>::(add_writer|add_file_at_drawing|add_bin|get_arv_mut|has_extension|file_list_sort)(::<.*>)?'), lambda it_, callee, *a: OK([])),
    ]
class Hyperlinks(Harness):
    name = 'hyperlink.rid_pairing'; property_id = 'C06'
    entry = ['writer::xlsx::worksheet::write', 'writer::xlsx::worksheet_rels::write', WS + 'get_hyperlink_collection_to_hashmap']
    def __init__(self, tier, n=None, kinds=None, name=None):
        self.n = n or 2
        self.kinds = kinds or KINDS
        if name: self.name = name
        self.doc = 'the real sheet-part writer and relationship-part writer on a worksheet with %d hyperlinked cells (each an external link, an external link with an empty address, or an internal location), with the XML driver replaced by an event recorder and every HashMap iteration taking a solver-chosen order: each r:id of the sheet part resolves to the URL of its own cell' % self.n
        self.bounds = {'hyperlinks': self.n, 'cells': 'distinct cells out of A2, A10, B1 (text order differs from row/column order)', 'kinds': self.kinds, 'hash_map_iteration_order': 'every permutation, chosen independently per iteration', 'sub_writers': 'stubbed (no output): everything except the hyperlinks block and the relationship loop'}
    def run(self, it, ctx, res):
        ev_sheet, ev_rels = Events(), Events()
        it.hash_order = 'symbolic'; it._hm_iter = 0
        try:
            ws = new_sheet(it)
            urls = {}; kinds = []
            # cells whose order as text (A10 < A2 < B1) differs from their order by row and column (B1, A2, A10)
            pool = [(1, 2), (1, 10), (2, 1)]
            left = list(pool); cells = []
            for i in range(self.n):
                if len(left) > 1:
                    pi = ctx.sym_int('cell%d' % i, 0, len(left) - 1); cells.append(left.pop(next(k for k in range(len(left)) if ctx.branch(pi == k))))
                else: cells.append(left.pop(0))
            for i in range(self.n):
                ki = ctx.sym_int('kind%d' % i, 0, len(self.kinds) - 1); kind = self.kinds[next(k for k in range(len(self.kinds)) if ctx.branch(ki == k))]; kinds.append(kind)
                cell = it.call(WS + 'get_cell_mut::<(u32, u32)>', [Ref(ws), [cells[i][0], cells[i][1]]])
                h = it.call('structs::cell::Cell::get_hyperlink_mut', [cell])
                u = '' if kind == 'blank' else 'u%d' % (i + 1)
                it.call('structs::hyperlink::Hyperlink::set_url::<&str>', [h, sref(u)])
                if kind == 'location': it.call('structs::hyperlink::Hyperlink::set_location', [h, True])
                urls[coord_str(cells[i][0], cells[i][1], False, False)] = (kind, u)
            sst = Box_(it.call('<structs::shared_string_table::SharedStringTable as std::default::Default>::default', []))
            sty = Box_(it.call('<structs::stylesheet::Stylesheet as std::default::Default>::default', []))
            install_recorders(it, ev_sheet)
            it.call('writer::xlsx::worksheet::write::<std::io::Cursor<std::vec::Vec<u8>>>', [iref(1), Ref(ws), Ref(sst), Ref(sty), False, Ref(Box_('WRITERMNG'))])
            install_recorders(it, ev_rels)
            it.call('writer::xlsx::worksheet_rels::write::<std::io::Cursor<std::vec::Vec<u8>>>', [Ref(ws), sref('1'), sref('1'), sref('1'), sref('1'), Ref(Box_([])), Ref(Box_([])), sref('1'), Ref(Box_([])), Ref(Box_('WRITERMNG'))])
        except Panic as e:
            self.fail(ctx, res, 'no-panic', str(e)); return
        finally:
            it.stub_patterns = []; it.hash_order = 'insertion'
        links = [(dict(a)) for t, a in ev_sheet.tags if t == 'hyperlink']
        rels = {pstr(SStr(dict(a)['Id'])): pstr(SStr(dict(a)['Target'])) for t, a in ev_rels.tags if t == 'Relationship' and 'Id' in dict(a)}
        ok = len(links) == self.n
        pairs = {}
        for l in links:
            ref = pstr(SStr(l['ref']))
            if 'location' in l: pairs[ref] = ('location', pstr(SStr(l['location'])), 'r:id' in l)
            else: pairs[ref] = ('external', rels.get(pstr(SStr(l.get('r:id', [])))), True)
        info = {'pairs': {k: list(v) for k, v in pairs.items()}, 'kinds': kinds, 'cells': [coord_str(c[0], c[1], False, False) for c in cells]}
        def good(c, kind, u):
            got = pairs.get(c)
            if got is None: return False
            return got == ('location', u, False) if kind == 'location' else got == ('external', u, True)
        self.oblige(ctx, res, 'r:id-resolves-to-own-target', ok and all(good(c, k, u) for c, (k, u) in urls.items()), info=info)
        n_ext = sum(1 for k in kinds if k != 'location')
        self.oblige(ctx, res, 'one-relationship-per-external-link', len(rels) == n_ext, info=dict(info, relationships=len(rels)))
    def case_of(self, v):
        kinds = [self.kinds[v['model'].get('kind%d' % i, 0)] for i in range(self.n)]
        c = {'hyperlinks': self.n, 'kinds': kinds, 'cell_order': v['info'].get('cells'), 'pairs': v['info'].get('pairs'), 'orders': {k: val for k, val in v['model'].items() if k.startswith('hash_order')}}
        c['show'] = dict(c); return c
    def confirm(self, case, profile):
        # the iteration order of a real HashMap is not under our control: repeat the save until a mismatch shows (or give up)
        kinds = list(case.get('kinds') or [])
        kinds = ','.join(kinds + ['url'] * (max(case['hyperlinks'], 4) - len(kinds)))
        for _ in range(12):
            r = native.run_cases([['hyperlink_roundtrip', max(case['hyperlinks'], 4), kinds, ','.join(case.get('cell_order') or [])]], profile, timeout_each=60)[0]
            if r[0] != 'ok': return True, 'hyperlink round trip -> %r' % (r,)
            wrong = native.unhx(r[1][0])
            if wrong: return True, 'cells whose hyperlink target changed after save and reload: %s' % wrong
        return False, 'no mismatch in 12 native saves'

WM = 'structs::writer_manager::WriterManager::<std::io::Cursor<std::vec::Vec<u8>>>::'
PART_KINDS = {'comment': ('xl/comments', '.xml'), 'vml_drawing': ('xl/drawings/vmlDrawing', '.vml'), 'drawing': ('xl/drawings/drawing', '.xml'), 'chart': ('xl/charts/chart', '.xml')}
class PartAllocation(Harness):
    """the number a comments / vmlDrawing / drawing / chart part gets is the number the sheet's relationship part will point at:
    the part must really have been written under that number, whatever parts (copied through from untouched sheets) exist already"""
    name = 'parts.allocation_step'; property_id = 'C06'
    entry = [WM.replace('::<std::io::Cursor<std::vec::Vec<u8>>>', '') + x for x in ('add_file_at_comment', 'add_file_at_vml_drawing', 'add_file_at_drawing', 'add_file_at_chart', 'add_writer', 'check_file_exist')]
    classes = {}
    def __init__(self, tier):
        self.npre = 2 if tier == 'quick' else 3
        self.doc = 'inductive step of part numbering: a WriterManager whose file list already holds up to %d parts of the same kind under symbolic numbers 1..9 (parts of untouched sheets that were copied through) and one unrelated part; one add_file_at_{comment,vml_drawing,drawing,chart}: the returned number names a part that did not exist, exactly that part is written, and the file list stays duplicate-free' % self.npre
        self.bounds = {'existing_parts_of_the_kind': [0, self.npre], 'their_numbers': [1, 9], 'kinds': sorted(PART_KINDS), 'zip': 'make_file_from_writer stubbed to a recorder (the archive is outside the kernel)'}
    def run(self, it, ctx, res):
        kinds = sorted(PART_KINDS)
        ki = ctx.sym_int('kind', 0, len(kinds) - 1); kind = kinds[next(i for i in range(len(kinds)) if ctx.branch(ki == i))]
        pre, suf = PART_KINDS[kind]
        name = lambda n: [ord(c) for c in pre] + [48 + n] + [ord(c) for c in suf]
        nums = []
        for i in range(self.npre):
            if ctx.branch(ctx.sym_bool('present%d' % i)):
                n = ctx.sym_int('num%d' % i, 1, 9)
                for m_ in nums: ctx.assume(n != m_)
                nums.append(n)
        files = [SStr(name(n)) for n in nums] + [SStr([ord(c) for c in 'xl/worksheets/sheet1.xml'])]
        written = []
        def mk_file(it_, callee, path, arv, writer, d, light):
            written.append(list(deref_all(path).chars)); return OK([])
        it.stub_patterns = [(re.compile(r'writer::driver::make_file_from_(writer|bin)::<.*>'), mk_file)]
        info = {'kind': kind, 'existing': len(nums)}
        try:
            wm = Box_(it.call(WM + 'new', [Ref(Box_('ZIP'))]))
            wm.v.fields[0] = list(files)
            r = it.call(WM + 'add_file_at_' + kind, [Ref(wm), 'XMLWRITER'])
            after = [list(deref_all(f).chars) for f in wm.v.fields[0]]
        except Panic as e:
            self.fail(ctx, res, 'no-panic', str(e), info=info); return
        finally:
            it.stub_patterns = []
        if r.variant != 0: self.fail(ctx, res, 'returns-ok', 'Err without an I/O failure', info=info); return
        n = r.fields[0]
        if is_sym(n): n = ctx.concretize(n) if hasattr(ctx, 'concretize') else n
        info['returned'] = str(n)
        want = name(n) if isinstance(n, int) and 1 <= n <= 9 else [ord(c) for c in '%s%s%s' % (pre, n, suf)]
        from harness.c17 import chars_eq
        self.oblige(ctx, res, 'returned-number-was-free', z3.And(*[n != m_ for m_ in nums]) if nums else True, info=info)
        self.oblige(ctx, res, 'exactly-that-part-is-written', len(written) == 1 and len(written[0]) == len(want) and chars_eq(written[0], want), info=dict(info, written=len(written)))
        listed = [f for f in after if len(f) == len(want)]
        hits = sum(1 for f in listed if all((a == b) if isinstance(a, int) and isinstance(b, int) else ctx.branch(a == b) for a, b in zip(f, want)))
        self.oblige(ctx, res, 'file-list-holds-the-part-once', hits == 1 and len(after) == len(files) + 1, info=dict(info, listed=len(after)))
    def case_of(self, v):
        m = v['model']; kinds = sorted(PART_KINDS)
        c = {'kind': kinds[m['kind']], 'existing': sorted(m['num%d' % i] for i in range(self.npre) if m.get('present%d' % i)), 'oblig': v['oblig']}
        c['show'] = dict(c); return c
    def confirm(self, case, profile):
        if case['kind'] not in ('comment', 'vml_drawing'): return False, 'no native scenario for part kind %s' % case['kind']
        ex = [n for n in case['existing'] if n <= 4]
        if len(ex) != len(case['existing']): return False, 'existing numbers above 4 have no native scenario'
        r = native.run_cases([['lazy_comments', ','.join(str(n) for n in ex)]], profile, timeout_each=120)[0]
        if r[0] != 'ok': return True, 'untouched sheets %r -> %r' % (ex, r)
        before, after = native.unhx(r[1][0]), native.unhx(r[1][1])
        return before != after, 'four sheets with one comment each, lazily read, sheets %r left untouched and the others touched: comments before %r, after save and reload %r' % (ex, before, after)

BOOKT = 'structs::spreadsheet::Spreadsheet::'
class WorkbookPart(Harness):
    """sheet list, order, names, visibility, active sheet and the owner of every defined name through xl/workbook.xml"""
    name = 'workbook_part.write_read'; property_id = 'C06'
    entry = ['writer::xlsx::workbook::write', 'reader::xlsx::workbook::read', 'structs::defined_name::DefinedName::write_to', 'structs::defined_name::DefinedName::set_attributes', 'structs::workbook_view::WorkbookView::write_to']
    classes = {}
    def __init__(self, tier):
        self.doc = 'a real Spreadsheet with two sheets (names of one symbolic character, symbolic visibility), a symbolic active tab and one defined name whose owner (workbook, first or second sheet; with or without localSheetId) and referenced sheet are symbolic, written by the real writer::xlsx::workbook::write into an XML event stream and read back by the real reader::xlsx::workbook::read (zip entry replaced by the recorded events): same sheets in the same order with the same names and visibility, same active tab, and the defined name is owned by the same sheet (or the workbook) with the same address'
        self.bounds = {'sheets': 2, 'name_alphabet': ['a', 'b', '&', ' ', 'e-acute'], 'states': 'SheetStateValues (all) or unset', 'active_tab': [0, 1], 'defined_names': 1, 'owner': ['workbook', 'sheet 0', 'sheet 1'], 'refers_to_sheet': [0, 1], 'local_sheet_id': ['unset', 'set to the owner index']}
    def setup(self, it):
        from engine import xmlmodel, cryptomodel as cm
        cm.install(it); cm.install_digests(it); xmlmodel.install(it); xmlmodel.install_events(it)
    def snapshot(self, it, book):
        sheets = deref_all(it.call(BOOKT + 'get_sheet_collection_no_check', [Ref(book)]))
        out = []
        for i in range(len(sheets)):
            ws = Ref(book.__class__(sheets[i])) if False else it.call(BOOKT + 'get_sheet', [Ref(book), iref(i)]).fields[0]
            nm = deref_all(it.call(WS + 'get_name', [ws])).chars
            st = deref_all(it.call(WS + 'get_state', [ws])).variant
            dns = [(deref_all(it.call('structs::defined_name::DefinedName::get_name', [Ref(Box_(d))])).chars, deref_all(it.call('structs::defined_name::DefinedName::get_address', [Ref(Box_(d))])).chars) for d in deref_all(it.call(WS + 'get_defined_names', [ws]))]
            out.append((nm, st, dns))
        top = [(deref_all(it.call('structs::defined_name::DefinedName::get_name', [Ref(Box_(d))])).chars, deref_all(it.call('structs::defined_name::DefinedName::get_address', [Ref(Box_(d))])).chars) for d in deref_all(it.call(BOOKT + 'get_defined_names', [Ref(book)]))]
        tab = deref_all(it.call('structs::workbook_view::WorkbookView::get_active_tab', [it.call(BOOKT + 'get_workbook_view', [Ref(book)])]))
        return out, top, tab
    def run(self, it, ctx, res):
        from engine import xmlmodel
        from harness.c12 import install_writer_stubs, Parts
        from harness.c17 import chars_eq
        from harness.rt import conj
        it.world = cm_world()
        alpha = [97, 98, 38, 32, 0xE9]
        n0 = ctx.sym_int('name0', 32, 0xE9); n1 = ctx.sym_int('name1', 32, 0xE9)
        for c in (n0, n1): ctx.define(z3.Or(*[c == a for a in alpha]))
        ctx.assume(n0 != n1)
        states = []
        for i in range(2):
            si = ctx.sym_int('state%d' % i, 0, 3); states.append(next(k for k in range(4) if ctx.branch(si == k)))
        tab = ctx.sym_int('active_tab', 0, 1)
        owner = ctx.sym_int('owner', 0, 2); owner = next(k for k in range(3) if ctx.branch(owner == k))          # 0 = workbook
        refers = 0 if ctx.branch(ctx.sym_bool('refers_to_first')) else 1
        local = owner != 0 and ctx.branch(ctx.sym_bool('local_sheet_id'))
        info = {'states': states, 'owner': owner, 'refers': refers, 'local': local}
        captured = []
        try:
            book = Box_(it.call('<structs::spreadsheet::Spreadsheet as std::default::Default>::default', []))
            for i, c in enumerate((n0, n1)):
                r = it.call(BOOKT + 'new_sheet::<&str>', [Ref(book), sref(SStr([c]))])
                if r.variant != 0: return 'sheet name rejected'
                if states[i] < 3: it.call(WS + 'set_state', [r.fields[0], Adt(states[i], [], 'SheetStateValues')])
            it.call('structs::workbook_view::WorkbookView::set_active_tab', [it.call(BOOKT + 'get_workbook_view_mut', [Ref(book)]), tab])
            dn = Box_(it.call('<structs::defined_name::DefinedName as std::default::Default>::default', []))
            it.call('structs::defined_name::DefinedName::set_name::<&str>', [Ref(dn), sref('N')])
            # the address names the referenced sheet: 'x'!$A$1 with the sheet's (symbolic) name, quoted
            addr = [39, (n0, n1)[refers], 39] + [ord(ch) for ch in '!$A$1']
            it.call('structs::defined_name::DefinedName::set_address::<&str>', [Ref(dn), sref(SStr(addr))])
            if local: it.call('structs::defined_name::DefinedName::set_local_sheet_id', [Ref(dn), owner - 1])
            if owner == 0: it.call(BOOKT + 'add_defined_names', [Ref(book), dn.v])
            else: it.call(WS + 'add_defined_names', [it.call(BOOKT + 'get_sheet_mut', [Ref(book), iref(owner - 1)]).fields[0], dn.v])
            before = self.snapshot(it, book)
            pats = [(re.compile(r'quick_xml::Writer::<.*>::new'), lambda it_, callee, *a: xmlmodel.Recorder()),
                    (re.compile(r"quick_xml::events::BytesDecl::<'_>::new"), lambda it_, callee, *a: 'DECL'),
                    (re.compile(r'std::io::Cursor::<.*>::new'), lambda it_, callee, v: v),
                    (re.compile(r'writer::driver::write_new_line::<.*>'), lambda it_, callee, *a: []),
                    (re.compile(r'structs::writer_manager::WriterManager::<.*>::add_writer(::<.*>)?'), lambda it_, callee, wm, path, writer: (captured.append(deref_all(writer)), OK([]))[1])]
            it.stub_patterns = pats
            r = it.call('writer::xlsx::workbook::write::<std::io::Cursor<std::vec::Vec<u8>>>', [Ref(book), Ref(Box_('WRITERMNG'))])
            if r.variant != 0 or len(captured) != 1: self.fail(ctx, res, 'workbook-part-written', 'no part', info=info); return
            evs = [e for e in captured[0].events if (e.variant if isinstance(e.variant, str) else xmlmodel.event_order()[e.variant]) != 'Decl']
            it.stub_patterns = [
                (re.compile(r'zip::(read::)?(<impl zip::ZipArchive<.*>>|ZipArchive::<.*>)::by_name'), lambda it_, callee, *a: OK('ZIPENTRY')),
                (re.compile(r'std::io::BufReader::<.*>::new'), lambda it_, callee, x: x),
                (re.compile(r'quick_xml::Reader::<.*>::from_reader'), lambda it_, callee, x: xmlmodel.XmlReader(evs, trim=True)),
            ]
            rr = it.call('reader::xlsx::workbook::read::<std::io::Cursor<std::vec::Vec<u8>>>', [Ref(Box_('ZIPARCHIVE'))])
            if rr.variant != 0: self.fail(ctx, res, 'workbook-part-read', 'Err', info=info); return
            after = self.snapshot(it, Box_(rr.fields[0]))
        except Panic as e:
            self.fail(ctx, res, 'no-panic', str(e), info=info); return
        finally:
            it.stub_patterns = []
        (sb, tb, tabb), (sa, ta, taba) = before, after
        self.oblige(ctx, res, 'same-number-of-sheets', len(sa) == len(sb), info=info)
        if len(sa) != len(sb): return
        eqs = lambda x, y: (len(x) == len(y)) and (chars_eq(x, y) if x else True)
        def same_names(x, y):
            if len(x) != len(y): return False
            return conj([conj([eqs(a[0], b[0]), eqs(a[1], b[1])]) for a, b in zip(x, y)])
        for i in range(len(sb)):
            self.oblige(ctx, res, 'same-sheet-name-at-same-position', eqs(sa[i][0], sb[i][0]), info=dict(info, sheet=i))
            self.oblige(ctx, res, 'same-visibility', sa[i][1] == sb[i][1], info=dict(info, sheet=i, before=sb[i][1], after=sa[i][1]))
        # a name without localSheetId is kept with the sheet its address names or with the workbook (the library files it under the
        # sheet on load): what must not change is the set of names with their addresses, and the owner of a name that has a localSheetId
        allb = [x for i in range(len(sb)) for x in sb[i][2]] + list(tb); alla = [x for i in range(len(sa)) for x in sa[i][2]] + list(ta)
        self.oblige(ctx, res, 'same-defined-names-with-same-addresses', same_names(alla, allb), info=dict(info, before=len(allb), after=len(alla)))
        if local:
            self.oblige(ctx, res, 'name-with-localSheetId-stays-with-its-sheet', same_names(sa[owner - 1][2], sb[owner - 1][2]), info=dict(info, sheet=owner - 1, before=len(sb[owner - 1][2]), after=len(sa[owner - 1][2])))
        self.oblige(ctx, res, 'same-active-tab', taba == tabb, info=dict(info, before=str(tabb), after=str(taba)))
    def case_of(self, v):
        m = v['model']
        c = {'names': [chr(m['name0']), chr(m['name1'])], 'states': [m.get('state0', 3), m.get('state1', 3)], 'active_tab': m.get('active_tab', 0), 'owner': m.get('owner', 0), 'refers': 0 if m.get('refers_to_first') else 1,
             'local': bool(m.get('local_sheet_id')) and m.get('owner', 0) != 0, 'oblig': v['oblig']}
        c['show'] = dict(c); return c
    def confirm(self, case, profile):
        r = native.run_cases([['workbook_part', case['names'][0], case['names'][1], case['states'][0], case['states'][1], case['active_tab'], case['owner'], case['refers'], case['local']]], profile, timeout_each=60)[0]
        if r[0] != 'ok': return True, 'workbook %r -> %r' % (case['show'], r)
        before, after = native.unhx(r[1][0]), native.unhx(r[1][1])
        return before != after, 'workbook before save %r, after reload %r' % (before, after)
def cm_world():
    from engine import cryptomodel as cm
    return cm.World()

class CommentsPart(Harness):
    """comments (cell, author, text) through the comments part: author table built from an unordered set, author ids, text runs"""
    name = 'comments_part.write_read'; property_id = 'C06'
    entry = ['writer::xlsx::comment::write', 'reader::xlsx::comment::read', 'structs::comment::Comment::set_attributes', 'structs::rich_text::RichText::write_to_text', 'structs::rich_text::RichText::set_attributes_text']
    classes = {}
    def __init__(self, tier):
        self.n = 2
        self.maxn = 1 if tier == 'quick' else 2
        self.doc = 'a worksheet with two comments at symbolic distinct cells, authors and texts of 0..%d symbolic characters (equal authors allowed), written by the real writer::xlsx::comment::write (author table collected through a HashSet whose iteration order is chosen by the solver) and read back by the real reader::xlsx::comment::read from the recorded events: each cell has its comment again with the same author and the same text' % self.maxn
        self.bounds = {'comments': 2, 'cells': 'A1..C3, distinct', 'author_chars': [0, self.maxn], 'text_chars': [0, self.maxn], 'alphabet': ['a', 'b', '&', ' '], 'hash_set_order': 'every permutation', 'vml part': 'outside (anchors and shapes)'}
    def setup(self, it):
        from engine import xmlmodel, cryptomodel as cm
        cm.install(it); cm.install_digests(it); xmlmodel.install(it); xmlmodel.install_events(it)
    def text(self, ctx, tag):
        n = ctx.sym_int(tag + 'len', 0, self.maxn); n = next(k for k in range(self.maxn + 1) if ctx.branch(n == k))
        cs = [ctx.sym_int('%s%d' % (tag, i), 32, 98) for i in range(n)]
        for c in cs: ctx.define(z3.Or(c == 97, c == 98, c == 38, c == 32))
        return cs
    def comments_of(self, it, ws):
        out = []
        for c in deref_all(it.call(WS + 'get_comments', [ws])):
            cr = Ref(Box_(c))
            co = it.call('structs::comment::Comment::get_coordinate', [cr])
            col = deref_all(it.call('structs::coordinate::Coordinate::get_col_num', [co])); row = deref_all(it.call('structs::coordinate::Coordinate::get_row_num', [co]))
            au = deref_all(it.call('structs::comment::Comment::get_author', [cr])).chars
            tx = it.call('structs::rich_text::RichText::get_text', [it.call('structs::comment::Comment::get_text', [cr])])
            tx = deref_all(tx.fields[0]).chars if isinstance(tx, Adt) else deref_all(tx).chars
            out.append((col, row, list(au), list(tx)))
        return out
    def run(self, it, ctx, res):
        from engine import xmlmodel
        from harness.c17 import chars_eq
        it.world = cm_world(); it.hash_order = 'symbolic'; it._hm_iter = 0
        pos = [(ctx.sym_int('c%d' % i, 1, 3), ctx.sym_int('r%d' % i, 1, 3)) for i in range(self.n)]
        ctx.assume(z3.Or(pos[0][0] != pos[1][0], pos[0][1] != pos[1][1]))
        spec = [(self.text(ctx, 'au%d_' % i), self.text(ctx, 'tx%d_' % i)) for i in range(self.n)]
        captured = []; info = {}
        try:
            ws = new_sheet(it)
            for i in range(self.n):
                c = Box_(it.call('<structs::comment::Comment as std::default::Default>::default', []))
                it.call('structs::comment::Comment::new_comment::<(u32, u32)>', [Ref(c), [pos[i][0], pos[i][1]]])
                it.call('structs::comment::Comment::set_author::<&str>', [Ref(c), sref(SStr(spec[i][0]))])
                it.call('structs::comment::Comment::set_text_string::<&str>', [Ref(c), sref(SStr(spec[i][1]))])
                it.call(WS + 'add_comments', [Ref(ws), c.v])
            before = self.comments_of(it, Ref(ws))
            it.stub_patterns = [(re.compile(r'quick_xml::Writer::<.*>::new'), lambda it_, callee, *a: xmlmodel.Recorder()),
                    (re.compile(r"quick_xml::events::BytesDecl::<'_>::new"), lambda it_, callee, *a: 'DECL'),
                    (re.compile(r'std::io::Cursor::<.*>::new'), lambda it_, callee, v: v),
                    (re.compile(r'writer::driver::write_new_line::<.*>'), lambda it_, callee, *a: []),
                    (re.compile(r'structs::writer_manager::WriterManager::<.*>::add_file_at_comment(::<.*>)?'), lambda it_, callee, wm, writer: (captured.append(deref_all(writer)), OK(1))[1])]
            r = it.call('writer::xlsx::comment::write::<std::io::Cursor<std::vec::Vec<u8>>>', [Ref(ws), Ref(Box_('WRITERMNG'))])
            if r.variant != 0 or len(captured) != 1: self.fail(ctx, res, 'comments-part-written', 'no part', info=info); return
            evs = [e for e in captured[0].events if (e.variant if isinstance(e.variant, str) else xmlmodel.event_order()[e.variant]) != 'Decl']
            it.stub_patterns = [
                (re.compile(r'structs::raw::raw_file::RawFile::get_file_data'), lambda it_, callee, *a: Ref(Box_([]))),
                (re.compile(r'std::io::Cursor::<.*>::new'), lambda it_, callee, v: v),
                (re.compile(r'quick_xml::Reader::<.*>::from_reader'), lambda it_, callee, x: xmlmodel.XmlReader(evs, trim=True)),
            ]
            ws2 = new_sheet(it)
            rr = it.call('reader::xlsx::comment::read', [Ref(ws2), Ref(Box_('RAWFILE'))])
            if rr.variant != 0: self.fail(ctx, res, 'comments-part-read', 'Err', info=info); return
            after = self.comments_of(it, Ref(ws2))
        except Panic as e:
            self.fail(ctx, res, 'no-panic', str(e), info=info); return
        finally:
            it.stub_patterns = []; it.hash_order = 'insertion'
        self.oblige(ctx, res, 'same-number-of-comments', len(after) == len(before), info=dict(info, before=len(before), after=len(after)))
        if len(after) != len(before): return
        eqs = lambda x, y: (len(x) == len(y)) and (chars_eq(x, y) if x else True)
        from harness.rt import conj
        for (c, r_, au, tx) in before:
            alts = [conj([a[0] == c, a[1] == r_, eqs(a[2], au), eqs(a[3], tx)]) for a in after]
            alts = [a for a in alts if a is not False]
            self.oblige(ctx, res, 'comment-keeps-cell-author-and-text', (True if any(a is True for a in alts) else (z3.Or(*alts) if alts else False)), info=info)
    def case_of(self, v):
        m = v['model']; f = lambda t: ''.join(chr(m.get('%s%d' % (t, i), 97)) for i in range(m.get(t + 'len', 0)))
        c = {'comments': [{'cell': [m['c%d' % i], m['r%d' % i]], 'author': f('au%d_' % i), 'text': f('tx%d_' % i)} for i in range(self.n)], 'oblig': v['oblig']}
        c['show'] = dict(c); return c
    def confirm(self, case, profile):
        spec = ';'.join('%d,%d,%s,%s' % (c['cell'][0], c['cell'][1], c['author'].encode().hex() or '-', c['text'].encode().hex() or '-') for c in case['comments'])
        for _ in range(6):          # the author table depends on the iteration order of a real HashSet: repeat the save
            r = native.run_cases([['comments_roundtrip', spec]], profile, timeout_each=60)[0]
            if r[0] != 'ok': return True, 'comments %r -> %r' % (case['comments'], r)
            before, after = native.unhx(r[1][0]), native.unhx(r[1][1])
            if before != after: return True, 'comments before save %r, after reload %r' % (before, after)
        return False, 'no difference in 6 native saves'

def harnesses(tier):
    from harness import rt
    if tier == 'quick': return [Hyperlinks(tier), PartAllocation(tier), WorkbookPart(tier), CommentsPart(tier)] + rt.harnesses_for('C06', tier)
    # thorough: additionally three external links under all iteration orders (6^6 orders; symbolic kinds for three links
    # would be 27 times that and did not finish in 15 minutes)
    return [Hyperlinks(tier), Hyperlinks(tier, n=3, kinds=['url'], name='hyperlink.rid_pairing.3links'), PartAllocation(tier), WorkbookPart(tier), CommentsPart(tier)] + rt.harnesses_for('C06', tier)
OPTIONS = {'want_smir': True}
