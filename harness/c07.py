"""C07 — structural edits relocate content exactly like a reference grid."""
import random
import z3
from engine.core import *
from engine.check import Harness, concrete
from engine import native
from harness.c17 import MAXC, MAXR, sref, iref, letters_of, coord_str, sym_coord, chars_eq, bool_eq, index_of

TR = 'traits::adjustment_coordinate::AdjustmentCoordinate'

class Scalar(Harness):
    name = 'scalar.shift'; property_id = 'C07'
    doc = 'adjustment_insert/remove_coordinate and is_remove_coordinate against the shift rule: index >= p moves by n, band = [p, p+n), remove undoes insert, no overflow'
    bounds = {'index': [1, MAXR], 'root': [1, MAXR], 'offset': [0, MAXR]}
    entry = ['helper::coordinate::adjustment_insert_coordinate', 'helper::coordinate::adjustment_remove_coordinate', 'helper::coordinate::is_remove_coordinate']
    def run(self, it, ctx, res):
        num = ctx.sym_int('num', 1, MAXR); root = ctx.sym_int('root', 1, MAXR); off = ctx.sym_int('offset', 0, MAXR)
        try:
            ins = it.call('helper::coordinate::adjustment_insert_coordinate', [iref(num), iref(root), iref(off)])
            band = it.call('helper::coordinate::is_remove_coordinate', [iref(num), iref(root), iref(off)])
        except Panic as e:
            self.fail(ctx, res, 'no-panic', str(e)); return
        self.oblige(ctx, res, 'insert-rule', ins == z3.If(num >= root, num + off, num))
        exp_band = z3.And(off > 0, num >= root, num < root + off)
        self.oblige(ctx, res, 'band-rule', band == exp_band if is_sym(band) else (exp_band if band else z3.Not(exp_band)))
        try:
            back = it.call('helper::coordinate::adjustment_remove_coordinate', [iref(ins), iref(root), iref(off)])
        except Panic as e:
            self.fail(ctx, res, 'no-panic', 'remove after insert: ' + str(e)); return
        self.oblige(ctx, res, 'remove-undoes-insert', back == num)
        # remove of an index outside the band (callers never hand an index inside the band to the subtractor)
        inband = ctx.branch(z3.And(off > 0, num >= root, num < root + off))
        if not inband:
            try: rem = it.call('helper::coordinate::adjustment_remove_coordinate', [iref(num), iref(root), iref(off)])
            except Panic as e:
                self.fail(ctx, res, 'no-panic', 'remove: ' + str(e)); return
            self.oblige(ctx, res, 'remove-rule', z3.And(rem == z3.If(num >= root + off, num - off, num), rem >= 1))
    def validate(self, it, seed):
        rnd = random.Random(seed); cs = []
        for _ in range(40):
            cs.append((rnd.choice([1, 5, MAXR, rnd.randint(1, MAXR)]), rnd.choice([1, 5, rnd.randint(1, MAXR)]), rnd.choice([0, 1, 3, rnd.randint(0, 1000)])))
        mism = []
        for kind, fn in (('adj_insert', 'adjustment_insert_coordinate'), ('is_remove', 'is_remove_coordinate')):
            nat = native.run_cases([[kind, a, b, c] for a, b, c in cs])
            for (a, b, c), n in zip(cs, nat):
                m = concrete(it, lambda: it.call('helper::coordinate::' + fn, [iref(a), iref(b), iref(c)]))
                mv = ('ok', [str(m[1]).lower()]) if m[0] == 'ok' else m
                if (n[0], n[1] if n[0] == 'ok' else None) != (mv[0], mv[1] if mv[0] == 'ok' else None): mism.append('%s%r: mir %r native %r' % (kind, (a, b, c), m, n))
        return 2 * len(cs), mism
    def case_of(self, v):
        m = v['model']; return {'show': m, 'args': [m['num'], m['root'], m['offset']]}
    def confirm(self, case, profile):
        num, root, off = case['args']
        r = native.run_cases([['adj_insert', num, root, off], ['is_remove', num, root, off]], profile)
        what = []; bad = False
        exp_ins = num + off if num >= root else num
        if r[0][0] != 'ok' or int(r[0][1][0]) != exp_ins: bad = True
        exp_band = off > 0 and root <= num < root + off
        if r[1][0] != 'ok' or (r[1][1][0] == 'true') != exp_band: bad = True
        if r[0][0] == 'ok':
            r2 = native.run_cases([['adj_remove', int(r[0][1][0]), root, off]], profile)[0]
            if r2[0] != 'ok' or int(r2[1][0]) != num: bad = True
            what.append('remove(insert)=%r' % (r2,))
        if not exp_band:
            r3 = native.run_cases([['adj_remove', num, root, off]], profile)[0]
            exp = num - off if num >= root + off else num
            if r3[0] != 'ok' or int(r3[1][0]) != exp: bad = True
            what.append('remove=%r expected %d' % (r3, exp))
        return bad, 'insert=%r (expected %d) band=%r (expected %s) %s' % (r[0], exp_ins, r[1], exp_band, ' '.join(what))

SHAPES = ('cell', 'cell:cell', 'col:col', 'row:row')
class RangeShift(Harness):
    """Range is the carrier of merged ranges, auto-filter, conditional-format ranges, comment anchors and defined names"""
    name = 'range.shift'; property_id = 'C07'
    entry = ['structs::range::Range::set_range', '<Range as AdjustmentCoordinate>::adjustment_insert_coordinate', '::adjustment_remove_coordinate', '::is_remove_coordinate', 'structs::range::Range::get_range']
    classes = {
        'remove-band-needs-both-axes': 'Range::is_remove_coordinate demands that column AND row lie in the band, so a range lying entirely inside removed rows (or columns) is never reported removable and survives the removal',
        'remove-corner-in-band': 'a range that straddles the removed band gets the band width subtracted from a corner inside the band: row/column 0, u32 underflow (panic in dev, wrap in release) or start > end',
    }
    def __init__(self, tier):
        self.tier = tier
        self.doc = 'Range (merge cells, auto filter, conditional formats, defined names) under insert/remove of a row band or a column band with symbolic corners and band'
        self.bounds = {'shapes': list(SHAPES), 'corners': 'whole grid, start <= end', 'band': 'root 1..limit, width 1..limit, rows or columns', 'ops': ['insert', 'remove'], 'locks': 'none (lock flags do not influence Range shifting)'}
    def run(self, it, ctx, res):
        sh = ctx.sym_int('shape', 0, 3); shape = next(k for k in range(4) if ctx.branch(sh == k)); name = SHAPES[shape]
        op = 'insert' if ctx.branch(ctx.sym_bool('op_insert')) else 'remove'
        axis = 'row' if ctx.branch(ctx.sym_bool('axis_row')) else 'col'
        lim = MAXR if axis == 'row' else MAXC
        c1 = ctx.sym_int('c1', 1, MAXC); c2 = ctx.sym_int('c2', 1, MAXC); r1 = ctx.sym_int('r1', 1, MAXR); r2 = ctx.sym_int('r2', 1, MAXR)
        p = ctx.sym_int('p', 1, lim); n = ctx.sym_int('n', 1, lim)
        ctx.assume(z3.And(c1 <= c2, r1 <= r2))
        if name == 'cell': ctx.assume(z3.And(c1 == c2, r1 == r2))
        has_col = name != 'row:row'; has_row = name != 'col:col'
        a1, a2 = (r1, r2) if axis == 'row' else (c1, c2)        # extent along the edited axis
        on_axis = has_row if axis == 'row' else has_col
        if op == 'insert':
            # legal edit: nothing is pushed off the grid
            if on_axis: ctx.assume(z3.If(a2 >= p, a2 + n <= lim, True))
        else:
            ctx.assume(p + n - 1 <= lim)
        corners = [(c1 if has_col else None, r1 if has_row else None), (c2 if has_col else None, r2 if has_row else None)]
        text = sym_coord(ctx, corners[0][0], corners[0][1], False, False, 'a')
        if name != 'cell': text += [58] + sym_coord(ctx, corners[1][0], corners[1][1], False, False, 'b')
        args = [iref(p if axis == 'col' else 0), iref(n if axis == 'col' else 0), iref(p if axis == 'row' else 0), iref(n if axis == 'row' else 0)]
        info = {'shape': name, 'op': op, 'axis': axis}
        cell = Box_(it.call('<structs::range::Range as std::default::Default>::default', []))
        it.call('structs::range::Range::set_range::<&str>', [Ref(cell), sref(SStr(text))])
        inside = z3.And(a1 >= p, a2 < p + n) if on_axis else False
        overlap_cls = [('remove-corner-in-band', z3.Or(z3.And(a1 >= p, a1 < p + n), z3.And(a2 >= p, a2 < p + n)))] if on_axis and op == 'remove' else []
        try:
            if op == 'remove':
                gone = it.call('<structs::range::Range as %s>::is_remove_coordinate' % TR, [Ref(cell)] + args)
                exp = inside
                prop = (gone == exp) if is_sym(gone) else (exp if gone else (z3.Not(exp) if is_sym(exp) else not exp))
                self.oblige(ctx, res, 'deleted-iff-inside-band', prop, classes=[('remove-band-needs-both-axes', inside)] if on_axis else [], info=info)
                if is_sym(gone): gone = ctx.branch(gone)
                if gone: return
                if on_axis and ctx.branch(inside): return       # should have been deleted (reported above); callers would go on, outside the obligation
                it.call('<structs::range::Range as %s>::adjustment_remove_coordinate' % TR, [Ref(cell)] + args)
            else:
                it.call('<structs::range::Range as %s>::adjustment_insert_coordinate' % TR, [Ref(cell)] + args)
            back = it.call('structs::range::Range::get_range', [Ref(cell)])
        except Panic as e:
            self.fail(ctx, res, 'no-panic', str(e), classes=overlap_cls, info=info); return
        st = cell.v.fields
        def num(o): return o.fields[0].fields[0] if o.variant == 1 else None
        sc, sr, ec, er = num(st[0]), num(st[1]), num(st[2]), num(st[3])
        if name == 'cell': ec, er = sc, sr
        n1, n2 = (sr, er) if axis == 'row' else (sc, ec)
        o1, o2 = (sc, ec) if axis == 'row' else (sr, er)       # other axis: must be untouched
        oo1, oo2 = (c1, c2) if axis == 'row' else (r1, r2)
        if (o1 is None) != (not (has_col if axis == 'row' else has_row)): self.fail(ctx, res, 'shape-kept', 'corner lost', info=info); return
        if o1 is not None: self.oblige(ctx, res, 'other-axis-untouched', z3.And(o1 == oo1, o2 == oo2), info=info)
        if not on_axis:
            return
        if op == 'insert':
            e1 = z3.If(a1 >= p, a1 + n, a1); e2 = z3.If(a2 >= p, a2 + n, a2)
            self.oblige(ctx, res, 'insert-moves-corners', z3.And(n1 == e1, n2 == e2), info=info)
        else:
            # weak obligations for every surviving range; exact rule for corners outside the band; shrink rule separately
            self.oblige(ctx, res, 'remove-stays-in-grid', z3.And(n1 >= 1, n2 <= lim, n1 <= n2), classes=overlap_cls, info=info)
            out1 = z3.Or(a1 < p, a1 >= p + n); out2 = z3.Or(a2 < p, a2 >= p + n)
            self.oblige(ctx, res, 'remove-moves-outside-corners', z3.And(z3.Implies(out1, n1 == z3.If(a1 >= p + n, a1 - n, a1)), z3.Implies(out2, n2 == z3.If(a2 >= p + n, a2 - n, a2))), classes=overlap_cls, info=info)
            self.oblige(ctx, res, 'remove-shrinks-to-survivors', z3.And(z3.Implies(z3.Not(out1), n1 == p), z3.Implies(z3.Not(out2), n2 == p - 1)), classes=overlap_cls, info=info)
    def text_of(self, m):
        name = SHAPES[m['shape']]
        a = coord_str(m['c1'], m['r1'], False, False); b = coord_str(m['c2'], m['r2'], False, False)
        if name == 'cell': return a
        if name == 'cell:cell': return a + ':' + b
        if name == 'col:col': return letters_of(m['c1']) + ':' + letters_of(m['c2'])
        return '%d:%d' % (m['r1'], m['r2'])
    def case_of(self, v):
        m = v['model']
        c = {'range': self.text_of(m), 'op': 'insert' if m['op_insert'] else 'remove', 'axis': 'row' if m['axis_row'] else 'col', 'p': m['p'], 'n': m['n'], 'oblig': v['oblig']}
        c['show'] = dict(c); return c
    def confirm(self, case, profile):
        r = native.run_cases([['range_adjust', case['range'], case['op'], case['axis'], case['p'], case['n']]], profile)[0]
        exp = ref_range_edit(case['range'], case['op'], case['axis'], case['p'], case['n'])
        if r[0] != 'ok': return True, 'range %s %s %s p=%d n=%d -> %s %s (expected %r)' % (case['range'], case['op'], case['axis'], case['p'], case['n'], r[0], r[1], exp)
        got = None if r[1][0] == 'removed' else native.unhx(r[1][1])
        return got != exp, 'range %s %s %ss p=%d n=%d -> %r (expected %r)' % (case['range'], case['op'], case['axis'], case['p'], case['n'], got, exp)
    def validate(self, it, seed):
        cs = [('B2:C5', 'insert', 'row', 3, 2), ('B2:C5', 'insert', 'col', 1, 4), ('B2:C5', 'remove', 'row', 7, 2), ('B2:C5', 'remove', 'col', 1, 1), ('D9', 'insert', 'row', 9, 1),
              ('A:C', 'insert', 'col', 2, 2), ('3:8', 'remove', 'row', 1, 1), ('D9', 'remove', 'row', 1, 3), ('B2:C5', 'remove', 'row', 10, 2)]
        nat = native.run_cases([['range_adjust'] + list(c) for c in cs]); mism = []
        for c, n in zip(cs, nat):
            def f():
                cell = Box_(it.call('<structs::range::Range as std::default::Default>::default', []))
                it.call('structs::range::Range::set_range::<&str>', [Ref(cell), sref(c[0])])
                args = [iref(c[3] if c[2] == 'col' else 0), iref(c[4] if c[2] == 'col' else 0), iref(c[3] if c[2] == 'row' else 0), iref(c[4] if c[2] == 'row' else 0)]
                if c[1] == 'remove':
                    if it.call('<structs::range::Range as %s>::is_remove_coordinate' % TR, [Ref(cell)] + args): return ['removed']
                    it.call('<structs::range::Range as %s>::adjustment_remove_coordinate' % TR, [Ref(cell)] + args)
                else: it.call('<structs::range::Range as %s>::adjustment_insert_coordinate' % TR, [Ref(cell)] + args)
                return ['kept', pstr(it.call('structs::range::Range::get_range', [Ref(cell)]))]
            m = concrete(it, f)
            nn = ([n[1][0]] + [native.unhx(x) for x in n[1][1:]]) if n[0] == 'ok' else n
            if m != ('ok', nn) and not (m[0] == 'panic' and n[0] == 'panic'): mism.append('range_adjust%r: mir %r native %r' % (c, m, nn))
        return len(cs), mism

def ref_range_edit(text, op, axis, p, n):
    """reference grid semantics on a range text -> new text or None (deleted)"""
    import re
    parts = text.split(':')
    def pc(t):
        mm = re.fullmatch(r'([A-Z]*)(\d*)', t)
        return [index_of(mm.group(1)) if mm.group(1) else None, int(mm.group(2)) if mm.group(2) else None]
    a = pc(parts[0]); b = pc(parts[-1]); k = 1 if axis == 'row' else 0
    if a[k] is not None:
        lo, hi = a[k], b[k]
        if op == 'insert':
            lo = lo + n if lo >= p else lo; hi = hi + n if hi >= p else hi
        else:
            if lo >= p and hi < p + n: return None
            lo = lo if lo < p else (p if lo < p + n else lo - n)
            hi = hi if hi < p else (p - 1 if hi < p + n else hi - n)
        a[k], b[k] = lo, hi
    def pr(x): return (letters_of(x[0]) if x[0] else '') + (str(x[1]) if x[1] else '')
    return pr(a) if len(parts) == 1 else pr(a) + ':' + pr(b)

WS = 'structs::worksheet::Worksheet::'
def new_sheet(it):
    return Box_(it.call('<structs::worksheet::Worksheet as std::default::Default>::default', []))
def put_cell(it, ws, c, r, tag):
    cell = it.call(WS + 'get_cell_mut::<(u32, u32)>', [Ref(ws), [c, r]])
    it.call('structs::cell::Cell::set_value_bool', [cell, tag])
def cell_tag(it, ws, c, r):
    """0 = no cell, 1 = TRUE cell, 2 = FALSE cell, 3 = other"""
    o = it.call(WS + 'get_cell::<(u32, u32)>', [Ref(ws), [c, r]])
    if o.variant == 0: return 0
    v = pstr(deref_all(it.call('structs::cell::Cell::get_value', [o.fields[0]]).fields[0]))
    return {'TRUE': 1, 'FALSE': 2}.get(v, 3)

class SheetEdit(Harness):
    name = 'sheet.insert_remove'; property_id = 'C07'
    entry = [WS + 'insert_new_row', WS + 'insert_new_column_by_index', WS + 'remove_row', WS + 'remove_column_by_index', WS + 'get_cell_mut', WS + 'add_merge_cells', WS + 'add_comments']
    doc = 'a real Worksheet holding two cells, a merged range and a comment at symbolic positions; one public insert/remove of rows or columns with symbolic position and width; every object is compared with the reference grid'
    def __init__(self, tier):
        self.D = 9 if tier == 'thorough' else 6
        self.bounds = {'cells': 2, 'cell_positions': 'anywhere in the grid (symbolic column 1..16384, row 1..1048576)', 'merge_and_comment_positions': '1..%d x 1..%d (one letter, one digit: their grid-wide behaviour is decided by range.shift)' % (self.D, self.D),
                       'edit': 'one of insert rows / insert columns / remove rows / remove columns, position 1..limit, width 1..limit'}
    def run(self, it, ctx, res):
        D = self.D
        op = 'insert' if ctx.branch(ctx.sym_bool('op_insert')) else 'remove'
        axis = 'row' if ctx.branch(ctx.sym_bool('axis_row')) else 'col'
        lim = MAXR if axis == 'row' else MAXC
        ca = ctx.sym_int('ca', 1, MAXC); ra = ctx.sym_int('ra', 1, MAXR); cb = ctx.sym_int('cb', 1, MAXC); rb = ctx.sym_int('rb', 1, MAXR)
        ctx.assume(z3.Or(ca != cb, ra != rb))
        m1c = ctx.sym_int('m1c', 1, D); m1r = ctx.sym_int('m1r', 1, D); m2c = ctx.sym_int('m2c', 1, D); m2r = ctx.sym_int('m2r', 1, D)
        ctx.assume(z3.And(m1c <= m2c, m1r <= m2r, z3.Or(m1c < m2c, m1r < m2r)))
        kc = ctx.sym_int('kc', 1, D); kr = ctx.sym_int('kr', 1, D)
        p = ctx.sym_int('p', 1, lim); n = ctx.sym_int('n', 1, lim)
        pos = lambda c, r: r if axis == 'row' else c
        if op == 'insert':
            for c, r in ((ca, ra), (cb, rb)): ctx.assume(z3.If(pos(c, r) >= p, pos(c, r) + n <= lim, True))
        else: ctx.assume(p + n - 1 <= lim)
        info = {'op': op, 'axis': axis}
        try:
            ws = new_sheet(it)
            put_cell(it, ws, ca, ra, True); put_cell(it, ws, cb, rb, False)
            it.call(WS + 'add_merge_cells::<&str>', [Ref(ws), sref(SStr(sym_coord(ctx, m1c, m1r, False, False, 'm') + [58] + sym_coord(ctx, m2c, m2r, False, False, 'n')))])
            com = Box_(it.call('<structs::comment::Comment as std::default::Default>::default', []))
            it.call('structs::comment::Comment::new_comment::<(u32, u32)>', [Ref(com), [kc, kr]])
            it.call(WS + 'add_comments', [Ref(ws), com.v])
            fn = {('insert', 'row'): 'insert_new_row', ('insert', 'col'): 'insert_new_column_by_index', ('remove', 'row'): 'remove_row', ('remove', 'col'): 'remove_column_by_index'}[(op, axis)]
            it.call(WS + fn, [Ref(ws), iref(p), iref(n)])
        except Panic as e:
            self.fail(ctx, res, 'no-panic', str(e), info=info); return
        inband = lambda x: z3.And(x >= p, x < p + n)
        def moved(x): return z3.If(x >= p, x + n, x) if op == 'insert' else z3.If(x >= p + n, x - n, x)
        # cells: each survivor is found at its new position with its own value; deleted ones are gone; nothing else exists
        try:
            exp_count = 0
            for (c, r, tag, nm) in ((ca, ra, 1, 'A'), (cb, rb, 2, 'B')):
                dead = op == 'remove' and ctx.branch(inband(pos(c, r)))
                nc, nr = (c, moved(r)) if axis == 'row' else (moved(c), r)
                if dead: continue
                exp_count += 1
                got = cell_tag(it, ws, nc, nr)
                self.oblige(ctx, res, 'cell-%s-relocated' % nm, got == tag, info=dict(info, got=got))
                rd = it.call(WS + 'get_row_dimension', [Ref(ws), iref(nr)])
                self.oblige(ctx, res, 'cell-%s-row-known' % nm, rd.variant == 1, info=info)
            cnt = len(it.call(WS + 'get_cell_collection', [Ref(ws)]))
            self.oblige(ctx, res, 'cell-count', cnt == exp_count, info=dict(info, count=cnt, expected=exp_count))
            # merged range
            mcs = deref_all(it.call(WS + 'get_merge_cells', [Ref(ws)]))
            a1, a2 = pos(m1c, m1r), pos(m2c, m2r)
            inside = op == 'remove' and ctx.branch(z3.And(inband(a1), inband(a2)))
            if inside: self.oblige(ctx, res, 'merge-deleted', len(mcs) == 0, info=info)
            elif len(mcs) != 1: self.fail(ctx, res, 'merge-kept', 'merged range lost', info=info)
            else:
                f = mcs[0].fields; num = lambda o: o.fields[0].fields[0]
                sc, sr, ec, er = num(f[0]), num(f[1]), num(f[2]), num(f[3])
                if op == 'insert': e1, e2 = moved(a1), moved(a2)
                else:
                    e1 = z3.If(inband(a1), p, moved(a1)); e2 = z3.If(inband(a2), p - 1, moved(a2))
                exp = z3.And(sr == e1, er == e2, sc == m1c, ec == m2c) if axis == 'row' else z3.And(sc == e1, ec == e2, sr == m1r, er == m2r)
                self.oblige(ctx, res, 'merge-relocated', exp, info=info)
            # comment
            cms = deref_all(it.call(WS + 'get_comments', [Ref(ws)]))
            kdead = op == 'remove' and ctx.branch(inband(pos(kc, kr)))
            if kdead: self.oblige(ctx, res, 'comment-deleted', len(cms) == 0, info=info)
            elif len(cms) != 1: self.fail(ctx, res, 'comment-kept', 'comment lost', info=info)
            else:
                cc = it.call('structs::comment::Comment::get_coordinate', [Ref(Box_(cms[0]))])
                gc = deref_all(it.call('structs::coordinate::Coordinate::get_col_num', [cc])); gr = deref_all(it.call('structs::coordinate::Coordinate::get_row_num', [cc]))
                ec_, er_ = (kc, moved(kr)) if axis == 'row' else (moved(kc), kr)
                self.oblige(ctx, res, 'comment-relocated', z3.And(gc == ec_, gr == er_), info=info)
        except Panic as e:
            self.fail(ctx, res, 'no-panic', 'observer: ' + str(e), info=info)
    def case_of(self, v):
        m = v['model']
        c = {'op': 'insert' if m['op_insert'] else 'remove', 'axis': 'row' if m['axis_row'] else 'col', 'p': m['p'], 'n': m['n'],
             'cells': [[m['ca'], m['ra']], [m['cb'], m['rb']]], 'merge': coord_str(m['m1c'], m['m1r'], False, False) + ':' + coord_str(m['m2c'], m['m2r'], False, False), 'comment': [m['kc'], m['kr']], 'oblig': v['oblig']}
        c['show'] = dict(c); return c
    def confirm(self, case, profile):
        (ca, ra), (cb, rb) = case['cells']; kc, kr = case['comment']
        r = native.run_cases([['sheet_edit', case['op'], case['axis'], case['p'], case['n'], ca, ra, cb, rb, case['merge'], kc, kr]], profile)[0]
        exp = ref_sheet_edit(case)
        if r[0] != 'ok': return True, 'sheet edit %r -> %s %s' % (case['show'], r[0], r[1])
        got = [native.unhx(x) for x in r[1]]
        return got != exp, 'observed %r expected %r' % (got, exp)
def ref_sheet_edit(case):
    op, axis, p, n = case['op'], case['axis'], case['p'], case['n']
    k = 1 if axis == 'row' else 0
    def mv(pt):
        pt = list(pt); x = pt[k]
        if op == 'insert': pt[k] = x + n if x >= p else x
        else:
            if p <= x < p + n: return None
            pt[k] = x - n if x >= p + n else x
        return pt
    cells = []
    for pt, tag in zip(case['cells'], ('TRUE', 'FALSE')):
        q = mv(pt)
        if q: cells.append('%s=%s' % (coord_str(q[0], q[1], False, False), tag))
    mr = ref_range_edit(case['merge'], op, axis, p, n)
    kq = mv(case['comment'])
    return [','.join(sorted(cells)), mr or '-', coord_str(kq[0], kq[1], False, False) if kq else '-']

class SheetSettings(Harness):
    name = 'sheet.settings_edit'; property_id = 'C07'
    entry = [WS + 'insert_new_row', WS + 'insert_new_column_by_index', WS + 'remove_row', WS + 'remove_column_by_index', WS + 'get_column_dimension_by_number_mut', WS + 'get_row_dimension_mut',
             WS + 'add_conditional_formatting_collection', WS + 'set_auto_filter']
    doc = 'a real Worksheet holding two column settings and two row settings at symbolic grid-wide positions, a conditional-format range and an auto filter; one public insert/remove of rows or columns with symbolic position and width; every setting is compared with the reference grid (moved by n at or beyond p, deleted inside the band, untouched before p, none invented)'
    def __init__(self, tier):
        self.D = 9 if tier == 'thorough' else 5
        self.bounds = {'column_settings': 2, 'row_settings': 2, 'setting_positions': 'anywhere in the grid (symbolic column 1..16384, row 1..1048576)',
                       'conditional_format_and_auto_filter_ranges': 'corners in 1..%d x 1..%d' % (self.D, self.D), 'edit': 'one of insert rows / insert columns / remove rows / remove columns, position 1..limit, width 1..limit'}
    def run(self, it, ctx, res):
        D = self.D
        op = 'insert' if ctx.branch(ctx.sym_bool('op_insert')) else 'remove'
        axis = 'row' if ctx.branch(ctx.sym_bool('axis_row')) else 'col'
        lim = MAXR if axis == 'row' else MAXC
        c1 = ctx.sym_int('c1', 1, MAXC); c2 = ctx.sym_int('c2', 1, MAXC); r1 = ctx.sym_int('r1', 1, MAXR); r2 = ctx.sym_int('r2', 1, MAXR)
        ctx.assume(z3.And(c1 != c2, r1 != r2))
        f1c = ctx.sym_int('f1c', 1, D); f1r = ctx.sym_int('f1r', 1, D); f2c = ctx.sym_int('f2c', 1, D); f2r = ctx.sym_int('f2r', 1, D)
        a1c = ctx.sym_int('a1c', 1, D); a1r = ctx.sym_int('a1r', 1, D); a2c = ctx.sym_int('a2c', 1, D); a2r = ctx.sym_int('a2r', 1, D)
        ctx.assume(z3.And(f1c <= f2c, f1r <= f2r, z3.Or(f1c < f2c, f1r < f2r), a1c <= a2c, a1r <= a2r, z3.Or(a1c < a2c, a1r < a2r)))
        p = ctx.sym_int('p', 1, lim); n = ctx.sym_int('n', 1, lim)
        mine = (r1, r2) if axis == 'row' else (c1, c2)
        if op == 'insert':
            for x in mine: ctx.assume(z3.If(x >= p, x + n <= lim, True))
        else: ctx.assume(p + n - 1 <= lim)
        info = {'op': op, 'axis': axis}
        try:
            ws = new_sheet(it)
            col = it.call(WS + 'get_column_dimension_by_number_mut', [Ref(ws), iref(c1)]); it.call('structs::column::Column::set_hidden', [col, True])
            col = it.call(WS + 'get_column_dimension_by_number_mut', [Ref(ws), iref(c2)]); it.call('structs::column::Column::set_best_fit', [col, True])
            row = it.call(WS + 'get_row_dimension_mut', [Ref(ws), iref(r1)]); it.call('structs::row::Row::set_hidden', [row, True])
            row = it.call(WS + 'get_row_dimension_mut', [Ref(ws), iref(r2)]); it.call('structs::row::Row::set_thick_bot', [row, True])
            rg = Box_(it.call('<structs::range::Range as std::default::Default>::default', []))
            it.call('structs::range::Range::set_range::<&str>', [Ref(rg), sref(SStr(sym_coord(ctx, f1c, f1r, False, False, 'f') + [58] + sym_coord(ctx, f2c, f2r, False, False, 'g')))])
            cf = Box_(it.call('<structs::conditional_formatting::ConditionalFormatting as std::default::Default>::default', []))
            sq = it.call('structs::conditional_formatting::ConditionalFormatting::get_sequence_of_references_mut', [Ref(cf)])
            it.call('structs::sequence_of_references::SequenceOfReferences::add_range_collection', [sq, rg.v])
            it.call(WS + 'add_conditional_formatting_collection', [Ref(ws), cf.v])
            it.call(WS + 'set_auto_filter::<&str>', [Ref(ws), sref(SStr(sym_coord(ctx, a1c, a1r, False, False, 'a') + [58] + sym_coord(ctx, a2c, a2r, False, False, 'b')))])
            fn = {('insert', 'row'): 'insert_new_row', ('insert', 'col'): 'insert_new_column_by_index', ('remove', 'row'): 'remove_row', ('remove', 'col'): 'remove_column_by_index'}[(op, axis)]
            it.call(WS + fn, [Ref(ws), iref(p), iref(n)])
        except Panic as e:
            self.fail(ctx, res, 'no-panic', str(e), info=info); return
        inband = lambda x: z3.And(x >= p, x < p + n)
        def moved(x): return z3.If(x >= p, x + n, x) if op == 'insert' else z3.If(x >= p + n, x - n, x)
        try:
            # column settings
            exp_cols = 0
            for x, nm, g1, g2 in ((c1, 'column-1', True, False), (c2, 'column-2', False, True)):
                if axis == 'col' and op == 'remove' and ctx.branch(inband(x)): continue
                exp_cols += 1
                nx = moved(x) if axis == 'col' else x
                o = it.call(WS + 'get_column_dimension_by_number', [Ref(ws), iref(nx)])
                if o.variant != 1: self.fail(ctx, res, nm + '-relocated', 'column setting not found at its new position', info=info); continue
                h = deref_all(it.call('structs::column::Column::get_hidden', [o.fields[0]])); bf = deref_all(it.call('structs::column::Column::get_best_fit', [o.fields[0]]))
                self.oblige(ctx, res, nm + '-relocated', z3.And(bool_eq(h, g1), bool_eq(bf, g2)), info=info)
            cnt = len(deref_all(it.call(WS + 'get_column_dimensions', [Ref(ws)])))
            self.oblige(ctx, res, 'column-settings-count', cnt == exp_cols, info=dict(info, count=cnt, expected=exp_cols))
            # row settings
            exp_rows = 0
            for x, nm, g1, g2 in ((r1, 'row-1', True, False), (r2, 'row-2', False, True)):
                if axis == 'row' and op == 'remove' and ctx.branch(inband(x)): continue
                exp_rows += 1
                nx = moved(x) if axis == 'row' else x
                o = it.call(WS + 'get_row_dimension', [Ref(ws), iref(nx)])
                if o.variant != 1: self.fail(ctx, res, nm + '-relocated', 'row setting not found at its new position', info=info); continue
                h = deref_all(it.call('structs::row::Row::get_hidden', [o.fields[0]])); tb = deref_all(it.call('structs::row::Row::get_thick_bot', [o.fields[0]]))
                rn = deref_all(it.call('structs::row::Row::get_row_num', [o.fields[0]]))
                self.oblige(ctx, res, nm + '-relocated', z3.And(bool_eq(h, g1), bool_eq(tb, g2), rn == nx), info=info)
            cnt = len(deref_all(it.call(WS + 'get_row_dimensions', [Ref(ws)])))
            self.oblige(ctx, res, 'row-settings-count', cnt == exp_rows, info=dict(info, count=cnt, expected=exp_rows))
            # conditional-format range and auto filter
            pos = lambda c, r: r if axis == 'row' else c
            def range_obligation(nm, ranges, x1c, x1r, x2c, x2r):
                b1, b2 = pos(x1c, x1r), pos(x2c, x2r)
                inside = op == 'remove' and ctx.branch(z3.And(inband(b1), inband(b2)))
                if inside: self.oblige(ctx, res, nm + '-deleted', len(ranges) == 0, info=info); return
                if len(ranges) != 1: self.fail(ctx, res, nm + '-kept', nm + ' lost or duplicated (%d)' % len(ranges), info=info); return
                f = ranges[0].fields; num = lambda o: o.fields[0].fields[0]
                sc, sr, ec, er = num(f[0]), num(f[1]), num(f[2]), num(f[3])
                if op == 'insert': e1, e2 = moved(b1), moved(b2)
                else: e1 = z3.If(inband(b1), p, moved(b1)); e2 = z3.If(inband(b2), p - 1, moved(b2))
                exp = z3.And(sr == e1, er == e2, sc == x1c, ec == x2c) if axis == 'row' else z3.And(sc == e1, ec == e2, sr == x1r, er == x2r)
                self.oblige(ctx, res, nm + '-relocated', exp, info=info)
            cfs = deref_all(it.call(WS + 'get_conditional_formatting_collection', [Ref(ws)]))
            rs = []
            for c_ in cfs:
                sq = it.call('structs::conditional_formatting::ConditionalFormatting::get_sequence_of_references', [Ref(Box_(deref_all(c_)))])
                rs.extend(deref_all(x) for x in deref_all(it.call('structs::sequence_of_references::SequenceOfReferences::get_range_collection', [sq])))
            range_obligation('conditional-format', rs, f1c, f1r, f2c, f2r)
            af = it.call(WS + 'get_auto_filter', [Ref(ws)])
            rs = [deref_all(it.call('structs::auto_filter::AutoFilter::get_range', [af.fields[0]]))] if af.variant == 1 else []
            range_obligation('auto-filter', rs, a1c, a1r, a2c, a2r)
        except Panic as e:
            self.fail(ctx, res, 'no-panic', 'observer: ' + str(e), info=info)
    def case_of(self, v):
        m = v['model']
        c = {'op': 'insert' if m['op_insert'] else 'remove', 'axis': 'row' if m['axis_row'] else 'col', 'p': m['p'], 'n': m['n'], 'cols': [m['c1'], m['c2']], 'rows': [m['r1'], m['r2']],
             'cf': coord_str(m['f1c'], m['f1r'], False, False) + ':' + coord_str(m['f2c'], m['f2r'], False, False), 'af': coord_str(m['a1c'], m['a1r'], False, False) + ':' + coord_str(m['a2c'], m['a2r'], False, False), 'oblig': v['oblig']}
        c['show'] = dict(c); return c
    def confirm(self, case, profile):
        r = native.run_cases([['sheet_settings', case['op'], case['axis'], case['p'], case['n']] + case['cols'] + case['rows'] + [case['cf'], case['af']]], profile)[0]
        exp = ref_settings_edit(case)
        if r[0] != 'ok': return True, 'sheet edit %r -> %s %s' % (case['show'], r[0], r[1])
        got = [native.unhx(x) for x in r[1]]
        return got != exp, 'observed %r expected %r' % (got, exp)
def ref_settings_edit(case):
    op, axis, p, n = case['op'], case['axis'], case['p'], case['n']
    def mv(x, mine):
        if not mine: return x
        if op == 'insert': return x + n if x >= p else x
        if p <= x < p + n: return None
        return x - n if x >= p + n else x
    cols = sorted((mv(x, axis == 'col'), t) for x, t in zip(case['cols'], ('hidden', 'bestfit')) if mv(x, axis == 'col') is not None)
    rows = sorted((mv(x, axis == 'row'), t) for x, t in zip(case['rows'], ('hidden', 'thickbot')) if mv(x, axis == 'row') is not None)
    return [','.join('%d=%s' % ct for ct in cols), ','.join('%d=%s' % rt for rt in rows), ref_range_edit(case['cf'], op, axis, p, n) or '-', ref_range_edit(case['af'], op, axis, p, n) or '-']

class SheetMove(Harness):
    name = 'sheet.move_copy'; property_id = 'C07'
    entry = [WS + 'move_range', WS + 'copy_range']
    doc = 'move_range / copy_range of a symbolic rectangle by a symbolic offset on a real Worksheet holding two cells: source emptied (move) or kept (copy), destination holds exactly the translated source cells'
    def __init__(self, tier):
        self.D = 3 if tier == 'thorough' else 2
        self.bounds = {'cells': 2, 'domain': '1..%d x 1..%d for cells and source rectangle' % (self.D, self.D), 'offset': 'every offset that keeps the destination inside 1..%d' % (2 * self.D)}
    def run(self, it, ctx, res):
        D = self.D
        mv = ctx.branch(ctx.sym_bool('is_move'))
        ca = ctx.sym_int('ca', 1, 2 * D); ra = ctx.sym_int('ra', 1, 2 * D); cb = ctx.sym_int('cb', 1, 2 * D); rb = ctx.sym_int('rb', 1, 2 * D)
        ctx.assume(z3.Or(ca != cb, ra != rb))
        c1 = ctx.sym_int('c1', 1, D); c2 = ctx.sym_int('c2', 1, D); r1 = ctx.sym_int('r1', 1, D); r2 = ctx.sym_int('r2', 1, D)
        dc = ctx.sym_int('dc', -D, D); dr = ctx.sym_int('dr', -D, D)
        ctx.assume(z3.And(c1 <= c2, r1 <= r2, c1 + dc >= 1, r1 + dr >= 1, z3.Or(dc != 0, dr != 0)))
        info = {'move': mv}
        text = sym_coord(ctx, c1, r1, False, False, 'a') + [58] + sym_coord(ctx, c2, r2, False, False, 'b')
        try:
            ws = new_sheet(it)
            put_cell(it, ws, ca, ra, True); put_cell(it, ws, cb, rb, False)
            it.call(WS + ('move_range' if mv else 'copy_range'), [Ref(ws), sref(SStr(text)), iref(dr), iref(dc)])
        except Panic as e:
            self.fail(ctx, res, 'no-panic', str(e), info=info); return
        def content0(c, r): return z3.If(z3.And(c == ca, r == ra), 1, z3.If(z3.And(c == cb, r == rb), 2, 0))
        def insrc(c, r): return z3.And(c >= c1, c <= c2, r >= r1, r <= r2)
        def indst(c, r): return insrc(c - dc, r - dr)
        def expect(c, r):
            if mv: return z3.If(indst(c, r), content0(c - dc, r - dr), z3.If(insrc(c, r), 0, content0(c, r)))
            return z3.If(z3.And(indst(c, r), content0(c - dc, r - dr) != 0), content0(c - dc, r - dr), content0(c, r))
        try:
            for nm, (c, r) in (('A', (ca, ra)), ('B', (cb, rb)), ('A+d', (ca + dc, ra + dr)), ('B+d', (cb + dc, rb + dr))):
                if not ctx.branch(z3.And(c >= 1, r >= 1)): continue
                got = cell_tag(it, ws, c, r)
                self.oblige(ctx, res, 'content-at-' + nm, expect(c, r) == got, info=dict(info, got=got))
            cnt = len(it.call(WS + 'get_cell_collection', [Ref(ws)]))
            pts = [(ca, ra), (cb, rb), (ca + dc, ra + dr), (cb + dc, rb + dr)]
            tot = 0
            for i, (c, r) in enumerate(pts):
                dup = z3.Or(*[z3.And(c == pc, r == pr) for pc, pr in pts[:i]]) if i else False
                tot = tot + z3.If(z3.And(z3.Not(dup) if i else True, c >= 1, r >= 1, expect(c, r) != 0), 1, 0)
            self.oblige(ctx, res, 'cell-count', tot == cnt, info=dict(info, count=cnt))
        except Panic as e:
            self.fail(ctx, res, 'no-panic', 'observer: ' + str(e), info=info)
    def case_of(self, v):
        m = v['model']
        c = {'move': bool(m['is_move']), 'cells': [[m['ca'], m['ra']], [m['cb'], m['rb']]], 'range': coord_str(m['c1'], m['r1'], False, False) + ':' + coord_str(m['c2'], m['r2'], False, False), 'rect': [m['c1'], m['r1'], m['c2'], m['r2']], 'd': [m['dc'], m['dr']], 'oblig': v['oblig']}
        c['show'] = dict(c); return c
    def confirm(self, case, profile):
        (ca, ra), (cb, rb) = case['cells']; dc, dr = case['d']
        r = native.run_cases([['sheet_move', case['move'], ca, ra, cb, rb, case['range'], dr + 100, dc + 100]], profile)[0]
        grid = {(ca, ra): 'TRUE', (cb, rb): 'FALSE'}; c1, r1, c2, r2 = case['rect']
        src = {k: v for k, v in grid.items() if c1 <= k[0] <= c2 and r1 <= k[1] <= r2}
        new = dict(grid)
        if case['move']:
            for c in range(c1, c2 + 1):
                for rr in range(r1, r2 + 1): new.pop((c, rr), None); new.pop((c + dc, rr + dr), None)
        for (c, rr), v in src.items(): new[(c + dc, rr + dr)] = v
        exp = ','.join(sorted('%s=%s' % (coord_str(c, rr, False, False), v) for (c, rr), v in new.items()))
        if r[0] != 'ok': return True, '%r -> %s %s' % (case['show'], r[0], r[1])
        got = native.unhx(r[1][0])
        return got != exp, 'observed %r expected %r' % (got, exp)

SP = 'structs::spreadsheet::Spreadsheet::'
class BookFanout(Harness):
    name = 'book.fanout'; property_id = 'C07'
    entry = [SP + 'insert_new_row', SP + 'insert_new_column_by_index', SP + 'remove_row', SP + 'remove_column_by_index', '<Spreadsheet as AdjustmentCoordinateWithSheet>']
    doc = 'workbook-level insert/remove addressed to one sheet by name on a real two-sheet Spreadsheet with one cell per sheet at symbolic positions: the addressed sheet follows the reference grid, the other sheet is untouched'
    bounds = {'sheets': ['A', 'B'], 'cells': 'one per sheet, anywhere in the grid', 'edit': 'insert/remove rows/columns, position and width symbolic over the grid'}
    def run(self, it, ctx, res):
        op = 'insert' if ctx.branch(ctx.sym_bool('op_insert')) else 'remove'
        axis = 'row' if ctx.branch(ctx.sym_bool('axis_row')) else 'col'
        target = 'A' if ctx.branch(ctx.sym_bool('edit_sheet_A')) else 'B'
        lim = MAXR if axis == 'row' else MAXC
        pos = {'A': (ctx.sym_int('ca', 1, MAXC), ctx.sym_int('ra', 1, MAXR)), 'B': (ctx.sym_int('cb', 1, MAXC), ctx.sym_int('rb', 1, MAXR))}
        p = ctx.sym_int('p', 1, lim); n = ctx.sym_int('n', 1, lim)
        k = 1 if axis == 'row' else 0
        x = pos[target][k]
        if op == 'insert': ctx.assume(z3.If(x >= p, x + n <= lim, True))
        else: ctx.assume(p + n - 1 <= lim)
        info = {'op': op, 'axis': axis, 'edited': target}
        try:
            book = Box_(it.call('<structs::spreadsheet::Spreadsheet as std::default::Default>::default', []))
            for nm in ('A', 'B'):
                wsr = it.call(SP + 'new_sheet::<&str>', [Ref(book), sref(nm)]).fields[0]
                cell = it.call(WS + 'get_cell_mut::<(u32, u32)>', [wsr, [pos[nm][0], pos[nm][1]]])
                it.call('structs::cell::Cell::set_value_bool', [cell, nm == 'A'])
            fn = {('insert', 'row'): 'insert_new_row', ('insert', 'col'): 'insert_new_column_by_index', ('remove', 'row'): 'remove_row', ('remove', 'col'): 'remove_column_by_index'}[(op, axis)]
            it.call(SP + fn, [Ref(book), sref(target), iref(p), iref(n)])
            for nm in ('A', 'B'):
                wsr = it.call(SP + 'get_sheet_by_name::<&str>', [Ref(book), sref(nm)])
                if wsr.variant != 1: self.fail(ctx, res, 'sheet-kept', 'sheet %s lost' % nm, info=info); return
                w = wsr.fields[0]
                c, r = pos[nm]
                if nm == target:
                    dead = op == 'remove' and ctx.branch(z3.And(x >= p, x < p + n))
                    mv = (lambda v: z3.If(v >= p, v + n, v)) if op == 'insert' else (lambda v: z3.If(v >= p + n, v - n, v))
                    nc, nr = (c, mv(r)) if axis == 'row' else (mv(c), r)
                    cnt = len(it.call(WS + 'get_cell_collection', [w]))
                    if dead: self.oblige(ctx, res, 'edited-sheet-cell-deleted', cnt == 0, info=info); continue
                    o = it.call(WS + 'get_cell::<(u32, u32)>', [w, [nc, nr]])
                    self.oblige(ctx, res, 'edited-sheet-follows-grid', o.variant == 1 and cnt == 1, info=info)
                else:
                    o = it.call(WS + 'get_cell::<(u32, u32)>', [w, [c, r]])
                    cnt = len(it.call(WS + 'get_cell_collection', [w]))
                    self.oblige(ctx, res, 'other-sheet-untouched', o.variant == 1 and cnt == 1, info=info)
        except Panic as e:
            self.fail(ctx, res, 'no-panic', str(e), info=info)
    def case_of(self, v):
        m = v['model']
        c = {'op': 'insert' if m['op_insert'] else 'remove', 'axis': 'row' if m['axis_row'] else 'col', 'edited': 'A' if m['edit_sheet_A'] else 'B', 'p': m['p'], 'n': m['n'], 'A': [m['ca'], m['ra']], 'B': [m['cb'], m['rb']], 'oblig': v['oblig']}
        c['show'] = dict(c); return c
    def confirm(self, case, profile):
        r = native.run_cases([['book_fanout', case['op'], case['axis'], case['edited'], case['p'], case['n']] + case['A'] + case['B']], profile)[0]
        if r[0] != 'ok': return True, 'workbook edit %r -> %s %s' % (case['show'], r[0], r[1])
        k = 1 if case['axis'] == 'row' else 0; exp = {}
        for nm in ('A', 'B'):
            pt = list(case[nm])
            if nm == case['edited']:
                x = pt[k]
                if case['op'] == 'insert': pt[k] = x + case['n'] if x >= case['p'] else x
                elif case['p'] <= x < case['p'] + case['n']: pt = None
                elif x >= case['p'] + case['n']: pt[k] = x - case['n']
            exp[nm] = coord_str(pt[0], pt[1], False, False) if pt else ''
        got = {'A': native.unhx(r[1][0]), 'B': native.unhx(r[1][1])}
        return got != exp, 'cells after the edit %r expected %r' % (got, exp)

class FromOtherSheet(Harness):
    name = 'sheet.from_other_sheet'; property_id = 'C07'
    entry = [WS + 'insert_new_row_from_other_sheet', WS + 'insert_new_column_by_index_from_other_sheet', WS + 'remove_row_from_other_sheet', WS + 'remove_column_by_index_from_other_sheet']
    doc = 'Worksheet::*_from_other_sheet(name, ..) tells a sheet that rows/columns were inserted/removed on ANOTHER sheet: its own cell must stay where it is'
    bounds = {'cell': 'anywhere in the grid', 'edit': 'insert/remove rows/columns on another sheet, position and width symbolic'}
    def run(self, it, ctx, res):
        op = 'insert' if ctx.branch(ctx.sym_bool('op_insert')) else 'remove'
        axis = 'row' if ctx.branch(ctx.sym_bool('axis_row')) else 'col'
        lim = MAXR if axis == 'row' else MAXC
        c = ctx.sym_int('c', 1, MAXC); r = ctx.sym_int('r', 1, MAXR); p = ctx.sym_int('p', 1, lim); n = ctx.sym_int('n', 1, lim)
        if op == 'remove': ctx.assume(p + n - 1 <= lim)
        info = {'op': op, 'axis': axis}
        try:
            ws = new_sheet(it)
            it.call(WS + 'set_name::<&str>', [Ref(ws), sref('B')])
            put_cell(it, ws, c, r, True)
            fn = {('insert', 'row'): 'insert_new_row_from_other_sheet', ('insert', 'col'): 'insert_new_column_by_index_from_other_sheet', ('remove', 'row'): 'remove_row_from_other_sheet', ('remove', 'col'): 'remove_column_by_index_from_other_sheet'}[(op, axis)]
            it.call(WS + fn, [Ref(ws), sref('A'), iref(p), iref(n)])
            got = cell_tag(it, ws, c, r); cnt = len(it.call(WS + 'get_cell_collection', [Ref(ws)]))
        except Panic as e:
            self.fail(ctx, res, 'no-panic', str(e), info=info); return
        self.oblige(ctx, res, 'own-cells-untouched', got == 1 and cnt == 1, info=dict(info, got=got, count=cnt))
    def case_of(self, v):
        m = v['model']; c = {'op': 'insert' if m['op_insert'] else 'remove', 'axis': 'row' if m['axis_row'] else 'col', 'cell': [m['c'], m['r']], 'p': m['p'], 'n': m['n']}; c['show'] = dict(c); return c
    def confirm(self, case, profile):
        r = native.run_cases([['from_other_sheet', case['op'], case['axis'], case['p'], case['n']] + case['cell']], profile)[0]
        exp = coord_str(case['cell'][0], case['cell'][1], False, False)
        got = native.unhx(r[1][0]) if r[0] == 'ok' else None
        return (r[0] != 'ok' or got != exp), 'cells of sheet B after %s %ss at %d (+%d) on sheet A: %r expected %r' % (case['op'], case['axis'], case['p'], case['n'], got if r[0] == 'ok' else r, exp)

def harnesses(tier):
    return [Scalar(), RangeShift(tier), SheetEdit(tier), SheetSettings(tier), SheetMove(tier), BookFanout(), FromOtherSheet()]

OPTIONS = {'want_smir': True}
