"""C08 — references keep their target cells across row/column insert and remove."""
import re, random
import z3
from engine.core import *
from engine.check import Harness, concrete
from engine import native
from harness.c17 import MAXC, MAXR, sref, iref, letters_of, coord_str, sym_coord, chars_eq, index_of
from harness import fskel
from harness.fskel import Slot
from harness.c09 import expected_pieces, any_eq, split_outside_strings, REF_RE

CELL = 'structs::cell::Cell::'
T2 = 'traits::adjustment_coordinate_with_2sheet::AdjustmentCoordinateWith2Sheet'
TS = 'traits::adjustment_coordinate_with_sheet::AdjustmentCoordinateWithSheet'
SHEETS = ['Data', 'Other', 'My Sheet', "it's"]
OWN = 'Data'

def edit_model(ctx, f, edited, own, op, axis, p, n, assume_legal=True):
    """reference semantics of one insert/remove on the references of a filled skeleton -> (newvals, dead token ids, partial?)"""
    newvals, dead, partial = {}, set(), False
    lim = MAXR if axis == 'row' else MAXC
    k = 1 if axis == 'row' else 0
    for t in f.tokens():
        sheet = t[0].sheet or own
        vals = [list(f.vals[sl.idx]) for sl in t]
        for sl, v in zip(t, vals): newvals[sl.idx] = v
        if sheet != edited: continue
        xs = [v[k] for v in vals]
        if xs[0] is None: continue                      # the reference has no part on the edited axis
        if len(xs) == 2: ctx.assume(xs[0] <= xs[1])
        if op == 'insert':
            for v in vals:
                x = v[k]
                if assume_legal: ctx.assume(z3.If(x >= p, x + n <= lim, True))
                v[k] = z3.If(x >= p, x + n, x)
        else:
            inb = [ctx.branch(z3.And(x >= p, x < p + n)) for x in xs]
            if all(inb): dead.add(id(t)); continue
            for i, v in enumerate(vals):
                x = v[k]
                if inb[i]:
                    partial = True
                    v[k] = p if i == 0 else p - 1
                else: v[k] = z3.If(x >= p + n, x - n, x)
    return newvals, dead, partial

class FormulaEdit(Harness):
    name = 'formula.insert_remove'; property_id = 'C08'
    entry = [CELL + 'set_formula', '<Cell as AdjustmentCoordinateWith2Sheet>::adjustment_insert_coordinate_with_2sheet', '::adjustment_remove_coordinate_with_2sheet', 'helper::formula::adjustment_insert_formula_coordinate', 'helper::formula::adjustment_remove_formula_coordinate']
    classes = {
        'locked-not-shifted': "a reference part written with '$' is not shifted by insert/remove although its target cell moves",
        'deleted-target': "a reference whose target was deleted does not become #REF! (it silently designates another cell); a range that loses some of its cells is not shrunk to the survivors",
        'partial-reference': 'whole-column / whole-row references are not adjusted by the remove path (unwrap on the missing part)',
    }
    def __init__(self, tier):
        self.tier = tier
        self.names = [s.name for s in fskel.SKELETONS]
        self.small = ([2, 12], [2, 5]) if tier == 'quick' else ([1, 30], [1, 12])
        self.doc = 'a formula cell on sheet Data under one insert/remove of rows/columns on a symbolic sheet: references into the edited sheet follow their target cells (relative or absolute), deleted targets become #REF!, everything else is unchanged'
        self.bounds = {'skeletons': self.names, 'single_slot_domain': 'whole grid', 'multi_slot_domain': {'columns': self.small[0], 'rows': self.small[1]},
                       'edited_sheet': SHEETS, 'formula_sheet': OWN, 'band': 'position and width anywhere in the slot domain (whole grid for single-slot skeletons)', 'locks': 'slot 0: all four, slot 1: none/both, others relative'}
    def run(self, it, ctx, res):
        k = ctx.sym_int('skel', 0, len(self.names) - 1)
        k = next(i for i in range(len(self.names)) if ctx.branch(k == i))
        sk = fskel.by_name(self.names[k])
        nslots = len({s.idx for s in sk.slots()})
        dom_c, dom_r = ([1, MAXC], [1, MAXR]) if nslots == 1 else self.small
        op = 'insert' if ctx.branch(ctx.sym_bool('op_insert')) else 'remove'
        axis = 'row' if ctx.branch(ctx.sym_bool('axis_row')) else 'col'
        dom = dom_r if axis == 'row' else dom_c
        es = ctx.sym_int('edited_sheet', 0, len(SHEETS) - 1)
        edited = SHEETS[next(i for i in range(len(SHEETS)) if ctx.branch(es == i))]
        p = ctx.sym_int('p', 1, dom[1] + 1); n = ctx.sym_int('n', 1, dom[1] + 1)
        if op == 'remove': ctx.assume(p + n - 1 <= (MAXR if axis == 'row' else MAXC))
        f = fskel.Filled(ctx, sk, dom_c, dom_r)
        text = f.text(ctx)
        newvals, dead, partial = edit_model(ctx, f, edited, OWN, op, axis, p, n)
        locked = any((f.vals[sl.idx][2] if axis == 'col' else f.vals[sl.idx][3]) for t in f.tokens() if (t[0].sheet or OWN) == edited for sl in t)
        part_ref = any(sl.kind != 'cell' for sl in sk.slots())
        cls = [('partial-reference', part_ref and op == 'remove'), ('locked-not-shifted', locked), ('deleted-target', bool(dead) or partial)]
        info = {'skeleton': sk.name, 'op': op, 'axis': axis, 'edited': edited, 'dead': len(dead), 'partial': partial}
        args = [iref(p if axis == 'col' else 0), iref(n if axis == 'col' else 0), iref(p if axis == 'row' else 0), iref(n if axis == 'row' else 0)]
        try:
            cell = Box_(it.call('<structs::cell::Cell as std::default::Default>::default', []))
            it.call(CELL + 'set_formula::<&str>', [Ref(cell), sref(SStr(text))])
            it.call('<structs::cell::Cell as %s>::adjustment_%s_coordinate_with_2sheet' % (T2, op), [Ref(cell), sref(OWN), sref(edited)] + args)
            out = deref_all(it.call(CELL + 'get_formula', [Ref(cell)]))
        except Panic as e:
            self.fail(ctx, res, 'no-panic', str(e), classes=cls, info=info); return
        except Budget as e:
            self.fail(ctx, res, 'terminates', str(e), classes=cls, info=info); return
        variants = expected_pieces(ctx, f, newvals, dead)
        self.oblige(ctx, res, 'references-follow-targets', any_eq(out.chars, variants), classes=cls, info=info)
    def case_of(self, v):
        m = v['model']; sk = fskel.by_name(self.names[m['skel']])
        c = {'skeleton': sk.name, 'formula': fskel.concrete_text(sk, fskel.model_vals(sk, m)), 'op': 'insert' if m['op_insert'] else 'remove', 'axis': 'row' if m['axis_row'] else 'col',
             'edited': SHEETS[m['edited_sheet']], 'own': OWN, 'p': m['p'], 'n': m['n']}
        c['show'] = dict(c); return c
    def confirm(self, case, profile):
        r = native.run_cases([['formula_edit', case['formula'], case['own'], case['edited'], case['op'], case['axis'], case['p'], case['n']]], profile)[0]
        exp = ref_edit(case['formula'], case['own'], case['edited'], case['op'], case['axis'], case['p'], case['n'])
        got = native.unhx(r[1][0]) if r[0] == 'ok' else None
        if r[0] == 'ok' and len(r[1]) > 1 and native.unhx(r[1][1]) not in exp: got = native.unhx(r[1][1]) + ' (through Spreadsheet::' + case['op'] + ')'
        return (r[0] != 'ok' or got not in exp), '%s %ss p=%d n=%d on %r: %r (on %r) -> %s %r expected %r' % (case['op'], case['axis'], case['p'], case['n'], case['edited'], case['formula'], case['own'], r[0], got if r[0] == 'ok' else r[1], exp[0])
    def validate(self, it, seed):
        cs = [('SUM(A1:B9)+C3', 'Data', 'Data', 'insert', 'row', 3, 2), ("'My Sheet'!B4&\"A1\"", 'Data', 'My Sheet', 'insert', 'col', 1, 1), ('Other!B2*2', 'Data', 'Data', 'insert', 'row', 1, 1),
              ('SUM(A1:B9)+C3', 'Data', 'Data', 'remove', 'row', 20, 2), ('A5+Other!A5', 'Data', 'Other', 'remove', 'row', 1, 2), ('IF(C3>=1,"B2",#N/A)', 'Data', 'Data', 'insert', 'col', 2, 3)]
        nat = native.run_cases([['formula_edit'] + list(c) for c in cs]); mism = []
        for c, n in zip(cs, nat):
            def fn():
                cell = Box_(it.call('<structs::cell::Cell as std::default::Default>::default', []))
                it.call(CELL + 'set_formula::<&str>', [Ref(cell), sref(c[0])])
                args = [iref(c[5] if c[4] == 'col' else 0), iref(c[6] if c[4] == 'col' else 0), iref(c[5] if c[4] == 'row' else 0), iref(c[6] if c[4] == 'row' else 0)]
                it.call('<structs::cell::Cell as %s>::adjustment_%s_coordinate_with_2sheet' % (T2, c[3]), [Ref(cell), sref(c[1]), sref(c[2])] + args)
                return pstr(it.call(CELL + 'get_formula', [Ref(cell)]))
            m = concrete(it, fn)
            nn = ('ok', native.unhx(n[1][0])) if n[0] == 'ok' else (n[0], None)
            if (m if m[0] == 'ok' else (m[0], None)) != nn: mism.append('formula_edit%r: mir %r native %r' % (c, m, n))
        return len(cs), mism

DN = 'structs::defined_name::DefinedName::'
QUALS = [('Data!', 'Data'), ('Other!', 'Other'), ("'My Sheet'!", 'My Sheet')]
class DefinedNameEdit(Harness):
    name = 'defined_name.insert_remove'; property_id = 'C08'
    entry = [DN + 'set_address', DN + 'get_address', '<DefinedName as AdjustmentCoordinateWithSheet>::adjustment_insert_coordinate_with_sheet', '::adjustment_remove_coordinate_with_sheet', '::is_remove_coordinate_with_sheet']
    doc = 'a defined name with two areas (a cell and a range) on symbolic sheets under one insert/remove on a symbolic sheet: areas on the edited sheet follow their cells, areas wholly deleted are dropped, other areas are unchanged'
    def __init__(self, tier):
        self.dom = ([2, 12], [2, 5]) if tier == 'quick' else ([1, 30], [1, 12])
        self.bounds = {'areas': 2, 'columns': self.dom[0], 'rows': self.dom[1], 'sheets': [q[1] for q in QUALS], 'locks': 'slot 0: all four, slot 1: none/both, slot 2 relative'}
    def build(self, ctx):
        q1 = ctx.sym_int('q1', 0, len(QUALS) - 1); q1 = next(i for i in range(len(QUALS)) if ctx.branch(q1 == i))
        q2 = ctx.sym_int('q2', 0, len(QUALS) - 1); q2 = next(i for i in range(len(QUALS)) if ctx.branch(q2 == i))
        sk = fskel.Skeleton('dn', [QUALS[q1][0], Slot(0, 'cell', QUALS[q1][1]), ',', QUALS[q2][0], Slot(1, 'cell', QUALS[q2][1]), ':', Slot(2, 'cell', QUALS[q2][1])])
        return sk, q1, q2
    def run(self, it, ctx, res):
        sk, q1, q2 = self.build(ctx)
        op = 'insert' if ctx.branch(ctx.sym_bool('op_insert')) else 'remove'
        axis = 'row' if ctx.branch(ctx.sym_bool('axis_row')) else 'col'
        dom = self.dom[1] if axis == 'row' else self.dom[0]
        es = ctx.sym_int('edited_sheet', 0, len(QUALS) - 1)
        edited = QUALS[next(i for i in range(len(QUALS)) if ctx.branch(es == i))][1]
        p = ctx.sym_int('p', 1, dom[1] + 1); n = ctx.sym_int('n', 1, dom[1] + 1)
        f = fskel.Filled(ctx, sk, self.dom[0], self.dom[1])
        ctx.assume(z3.And(f.vals[1][0] <= f.vals[2][0], f.vals[1][1] <= f.vals[2][1]))
        text = f.text(ctx)
        newvals, dead, partial = edit_model(ctx, f, edited, '', op, axis, p, n)
        info = {'op': op, 'axis': axis, 'edited': edited, 'areas_deleted': len(dead)}
        args = [iref(p if axis == 'col' else 0), iref(n if axis == 'col' else 0), iref(p if axis == 'row' else 0), iref(n if axis == 'row' else 0)]
        try:
            dn = Box_(it.call('<structs::defined_name::DefinedName as std::default::Default>::default', []))
            it.call(DN + 'set_address::<&str>', [Ref(dn), sref(SStr(text))])
            gone = False
            if op == 'remove':
                gone = it.call('<structs::defined_name::DefinedName as %s>::is_remove_coordinate_with_sheet' % TS, [Ref(dn), sref(edited)] + args)
                if is_sym(gone): gone = ctx.branch(gone)
            if not gone:
                it.call('<structs::defined_name::DefinedName as %s>::adjustment_%s_coordinate_with_sheet' % (TS, op), [Ref(dn), sref(edited)] + args)
            out = it.call(DN + 'get_address', [Ref(dn)])
        except Panic as e:
            self.fail(ctx, res, 'no-panic', str(e), info=info); return
        toks = f.tokens()
        all_dead = len(dead) == len(toks)
        self.oblige(ctx, res, 'name-dropped-iff-all-areas-deleted', gone == all_dead, info=info)
        if gone or all_dead: return
        # the writer may quote a sheet name that does not need it ('Data'!A1 designates the same cell as Data!A1)
        variants = [[]]
        for ti, t in enumerate(toks):
            if id(t) in dead: continue
            q = QUALS[q1 if ti == 0 else q2][0]
            qs = [q] if q.startswith("'") else [q, "'" + q[:-1] + "'!"]
            area = []
            for k, sl in enumerate(t):
                if k: area.append(58)
                c, r, lc, lr = newvals[sl.idx]
                area += sym_coord(ctx, c, r, lc, lr, 'e%d' % sl.idx)
            variants = [v + ([44] if v else []) + [ord(ch) for ch in qq] + area for v in variants for qq in qs]
        self.oblige(ctx, res, 'areas-follow-targets', any_eq(out.chars, variants), info=info)
    def case_of(self, v):
        m = v['model']
        sk = fskel.Skeleton('dn', [QUALS[m['q1']][0], Slot(0), ',', QUALS[m['q2']][0], Slot(1), ':', Slot(2)])
        c = {'address': fskel.concrete_text(sk, fskel.model_vals(sk, m)), 'op': 'insert' if m['op_insert'] else 'remove', 'axis': 'row' if m['axis_row'] else 'col', 'edited': QUALS[m['edited_sheet']][1], 'p': m['p'], 'n': m['n']}
        c['show'] = dict(c); return c
    def confirm(self, case, profile):
        r = native.run_cases([['defined_name_edit', case['address'], case['edited'], case['op'], case['axis'], case['p'], case['n']]], profile)[0]
        exp = []
        for area in case['address'].split(','):
            e = ref_edit(area, '', case['edited'], case['op'], case['axis'], case['p'], case['n'])[0]
            if '#REF!' not in e: exp.append(e)
        exp = ','.join(exp) if exp else '<dropped>'
        got = native.unhx(r[1][0]) if r[0] == 'ok' else None
        if got is not None: got = re.sub(r"'([A-Za-z0-9]+)'!", r'\1!', got)        # unnecessary quotes do not change the target
        return (r[0] != 'ok' or got != exp), 'defined name %r, %s %ss p=%d n=%d on %r -> %s %r expected %r' % (case['address'], case['op'], case['axis'], case['p'], case['n'], case['edited'], r[0], got if r[0] == 'ok' else r[1], exp)
    def validate(self, it, seed):
        cs = [("Data!$B$2,'My Sheet'!$C$3:$D$4", 'Data'), ('Other!B2,Other!C3:D4', 'Other')]
        nat = native.run_cases([['defined_name_edit', a, e, 'insert', 'row', 2, 2] for a, e in cs]); mism = []
        for (a, e), n in zip(cs, nat):
            def fn():
                dn = Box_(it.call('<structs::defined_name::DefinedName as std::default::Default>::default', []))
                it.call(DN + 'set_address::<&str>', [Ref(dn), sref(a)])
                it.call('<structs::defined_name::DefinedName as %s>::adjustment_insert_coordinate_with_sheet' % TS, [Ref(dn), sref(e), iref(0), iref(0), iref(2), iref(2)])
                return pstr(it.call(DN + 'get_address', [Ref(dn)]))
            m = concrete(it, fn)
            nn = ('ok', native.unhx(n[1][0])) if n[0] == 'ok' else (n[0], None)
            if (m if m[0] == 'ok' else (m[0], None)) != nn: mism.append('defined_name_edit(%r): mir %r native %r' % (a, m, n))
        return len(cs), mism

def unquote(q):
    q = q[:-1]
    if q.startswith("'"): q = q[1:-1].replace("''", "'")
    return q
def ref_edit(text, own, edited, op, axis, p, n):
    """reference semantics on concrete text -> acceptable outputs"""
    k = 1 if axis == 'row' else 0
    def corner(t):
        mm = re.fullmatch(r'(\$?)([A-Z]*)(\$?)(\d*)', t)
        return [index_of(mm.group(2)) if mm.group(2) else None, int(mm.group(4)) if mm.group(4) else None, mm.group(1) == '$', mm.group(3) == '$']
    def pr(x): return ('$' if x[2] else '') + (letters_of(x[0]) if x[0] else '') + ('$' if x[3] else '') + (str(x[1]) if x[1] else '')
    outs = ['', '']
    for seg, code in split_outside_strings(text):
        if not code: outs = [o + seg for o in outs]; continue
        pos = 0; a_ = ''; b_ = ''
        for m in REF_RE.finditer(seg):
            if m.start() > 0 and (seg[m.start() - 1].isalnum() or seg[m.start() - 1] in '_.'): continue
            if m.end() < len(seg) and (seg[m.end()].isalnum() or seg[m.end()] in '_(.'): continue
            a_ += seg[pos:m.start()]; b_ += seg[pos:m.start()]; pos = m.end()
            sheet = unquote(m.group('q')) if m.group('q') else own
            cs = [corner(m.group('a'))] + ([corner(m.group('b'))] if m.group('b') else [])
            dead = False
            if sheet == edited and cs[0][k] is not None:
                if op == 'insert':
                    for x in cs: x[k] = x[k] + n if x[k] >= p else x[k]
                else:
                    inb = [p <= x[k] < p + n for x in cs]
                    if all(inb): dead = True
                    else:
                        for i, x in enumerate(cs):
                            if inb[i]: x[k] = p if i == 0 else p - 1
                            elif x[k] >= p + n: x[k] -= n
            if dead: a_ += (m.group('q') or '') + '#REF!'; b_ += '#REF!'
            else:
                t = (m.group('q') or '') + ':'.join(pr(x) for x in cs); a_ += t; b_ += t
        a_ += seg[pos:]; b_ += seg[pos:]
        outs = [outs[0] + a_, outs[1] + b_]
    return outs

def harnesses(tier):
    return [FormulaEdit(tier), DefinedNameEdit(tier)]
