"""C09 — formula text survives the tokenizer; translation shifts only relative references."""
import random, re
import z3
from engine.core import *
from engine.check import Harness, concrete
from engine import native
from harness.c17 import MAXC, MAXR, sref, iref, letters_of, coord_str, sym_coord, chars_eq, index_of

ERRORS = ['#NULL!', '#DIV/0!', '#VALUE!', '#REF!', '#NAME?', '#NUM!', '#N/A']
OPS = '+-*/^&=><%'

# ---------------------------------------------------------------- reference lexer (oracle; independent of the implementation)
class Tok:
    def __init__(self, kind, chars): self.kind, self.chars = kind, chars
def ref_lex(ctx, cs):
    """Lexes the formula body `cs` (code points, possibly symbolic; decisions go through ctx.branch).
    -> (wellformed, tokens, notes).  Token kinds: operand, str, err, ws, op, lp, rp, lb, rb, comma, semi."""
    B = lambda e: ctx.branch(e) if not isinstance(e, bool) else e
    eq = lambda c, ch: B(c == ord(ch))
    toks, i, n = [], 0, len(cs)
    notes = {'apostrophe': False, 'bracket': False, 'at_function': False, 'hash_in_operand': False}
    def operand_piece(chars):
        if toks and toks[-1].kind == 'operand' and getattr(toks[-1], 'open', True): toks[-1].chars += chars
        else: toks.append(Tok('operand', list(chars)))
    def close_operand():
        if toks and toks[-1].kind == 'operand': toks[-1].open = False
    while i < n:
        c = cs[i]
        if eq(c, '"'):
            close_operand(); j = i + 1
            while True:
                if j >= n: return False, toks, notes            # unterminated string literal
                if eq(cs[j], '"'):
                    if j + 1 < n and eq(cs[j + 1], '"'): j += 2; continue
                    break
                j += 1
            toks.append(Tok('str', cs[i:j + 1])); i = j + 1; continue
        if eq(c, "'"):
            notes['apostrophe'] = True; j = i + 1
            while True:
                if j >= n: return False, toks, notes
                if eq(cs[j], "'"):
                    if j + 1 < n and eq(cs[j + 1], "'"): j += 2; continue
                    break
                j += 1
            operand_piece(cs[i:j + 1]); i = j + 1; continue
        if eq(c, '['):
            notes['bracket'] = True; j = i + 1
            while True:
                if j >= n: return False, toks, notes
                if eq(cs[j], ']'): break
                j += 1
            operand_piece(cs[i:j + 1]); i = j + 1; continue
        if eq(c, ']'): return False, toks, notes
        if eq(c, '#'):
            if toks and toks[-1].kind == 'operand' and getattr(toks[-1], 'open', True):
                notes['hash_in_operand'] = True; return False, toks, notes
            hit = None
            for e in ERRORS:
                if i + len(e) <= n and all(eq(cs[i + k], e[k]) for k in range(1, len(e))): hit = e; break
            if hit is None: return False, toks, notes
            toks.append(Tok('err', cs[i:i + len(hit)])); i += len(hit); continue
        if eq(c, ' '):
            close_operand(); j = i
            while j < n and eq(cs[j], ' '): j += 1
            toks.append(Tok('ws', cs[i:j])); i = j; continue
        kind = None
        for ch, k in (('(', 'lp'), (')', 'rp'), ('{', 'lb'), ('}', 'rb'), (',', 'comma'), (';', 'semi')):
            if eq(c, ch): kind = k; break
        if kind is None:
            for ch in OPS:
                if eq(c, ch): kind = 'op'; break
        if kind is None:
            operand_piece([c]); i += 1; continue
        if kind == 'lp' and toks and toks[-1].kind == 'operand' and getattr(toks[-1], 'open', True):
            t = Tok('lp', [c]); t.func = toks[-1]
            if eq(toks[-1].chars[0], '@'): notes['at_function'] = True
            close_operand(); toks.append(t); i += 1; continue
        close_operand(); toks.append(Tok(kind, [c])); i += 1
    # nesting
    stack = []
    for t in toks:
        if t.kind == 'lp': stack.append('(')
        elif t.kind == 'lb': stack.append('{')
        elif t.kind == 'rp':
            if not stack or stack.pop() != '(': return False, toks, notes
        elif t.kind == 'rb':
            if not stack or stack.pop() != '{': return False, toks, notes
        elif t.kind == 'comma':
            if not stack: return False, toks, notes
        elif t.kind == 'semi':
            if not stack or stack[-1] != '{': return False, toks, notes
    if stack: return False, toks, notes
    return True, toks, notes

def keep(ctx, toks):
    """expected text: blanks that are not intersection operators disappear, an intersection is one blank"""
    out = []; sig = [t for t in toks]
    notes = {'unary_plus': False}
    for k, t in enumerate(toks):
        if t.kind != 'ws': out += t.chars; continue
        prev = toks[k - 1] if k > 0 else None; nxt = toks[k + 1] if k + 1 < len(toks) else None
        left = prev is not None and prev.kind in ('operand', 'str', 'err', 'rp', 'rb')
        right = nxt is not None and nxt.kind in ('operand', 'str', 'err', 'lp', 'lb')
        if left and right: out.append(32)
    # unary plus: '+' whose left neighbour (ignoring blanks) is not a value end
    prev = None
    for t in toks:
        if t.kind == 'ws': continue
        if t.kind == 'op' and not is_sym(t.chars[0]) and t.chars[0] == 43:
            if prev is None or not (prev.kind in ('operand', 'str', 'err', 'rp', 'rb') or (prev.kind == 'op' and prev.chars[0] == 37)):
                notes['unary_plus'] = True
        prev = t
    return out, notes

def concretize_ops(ctx, toks):
    for t in toks:
        if t.kind == 'op' and is_sym(t.chars[0]):
            v = ctx.concretize(t.chars[0])
            if v is not None: t.chars[0] = v

FML = 'helper::formula::'
class LexIdentity(Harness):
    name = 'lex.identity'; property_id = 'C09'
    entry = [FML + 'parse_to_tokens', FML + 'render']
    classes = {
        'apostrophe': "a quoted sheet name is not tokenised as a path: the opening apostrophe switches the tokenizer into the string-literal state (in_string instead of in_path), so the qualifier loses its quotes / swallows the rest of the formula",
        'unary-plus': "a unary '+' is classified as a no-op and dropped from the token list, so the rendered formula loses a character",
        'at-function': "a leading '@' (implicit intersection) is stripped from function names",
    }
    def __init__(self, tier):
        self.maxn = 4 if tier == 'thorough' else 3
        self.doc = 'render(parse_to_tokens("=" + body)) for every body of 1..%d symbolic characters against a reference lexer: well-formed bodies must terminate, not panic and come back character for character (insignificant blanks excepted)' % self.maxn
        self.bounds = {'body_chars': [1, self.maxn], 'alphabet': 'all 95 printable ASCII characters plus U+00E9 and U+3042, every position symbolic', 'step_budget': Interp.STEP_BUDGET}
    def run(self, it, ctx, res):
        n = ctx.sym_int('len', 1, self.maxn)
        n = next(k for k in range(1, self.maxn + 1) if ctx.branch(n == k))
        cs = [ctx.sym_int('b%d' % i, 32, 0x3042) for i in range(n)]
        for c in cs:
            ctx.define(z3.Or(c <= 126, c == 0xE9, c == 0x3042))
            if ctx.branch(c > 126): ctx.branch(c == 0xE9)       # the two non-ASCII representatives are taken one at a time
        ok, toks, notes = ref_lex(ctx, cs)
        if not ok:
            res['illformed'] = True
            return 'illformed'
        concretize_ops(ctx, toks)
        exp, n2 = keep(ctx, toks)
        cls = [('apostrophe', notes['apostrophe']), ('unary-plus', n2['unary_plus']), ('at-function', notes['at_function'])]
        info = {'len': n, 'tokens': [t.kind for t in toks]}
        try:
            tl = it.call(FML + 'parse_to_tokens::<&str>', [sref(SStr([61] + cs))])
            out = it.call(FML + 'render', [Ref(Box_(tl))])
        except Panic as e:
            self.fail(ctx, res, 'no-panic', str(e), classes=cls, info=info); return
        except Budget as e:
            self.fail(ctx, res, 'terminates', str(e), classes=cls, info=info); return
        self.oblige(ctx, res, 'render(parse(f))==f', chars_eq(out.chars, exp), classes=cls, info=info)
    def validate(self, it, seed):
        fs = ['=10+9', '=SUM(E7:I7)', '=SUM(Sheet2!E7:I7)', '="TEST"', '="a""b"', '=A1 B2', '=A1  +B1', '=-A1', '=+A1', "='My Sheet'!A1+1", '={1,2;3,4}', '=IF(A1>=2,"x",#N/A)',
              '=a%', '=1E+5', '=@SUM(A1)', '=(A1,B2)', '= A1', '=A1:B2 C3', '=#REF!+1', '=é+1']
        nat = native.run_cases([['parse_render', f] for f in fs]); mism = []
        for f, n in zip(fs, nat):
            m = concrete(it, lambda: pstr(it.call(FML + 'render', [Ref(Box_(it.call(FML + 'parse_to_tokens::<&str>', [sref(f)])))])))
            nn = ('ok', native.unhx(n[1][0])) if n[0] == 'ok' else (n[0], None)
            mm = m if m[0] == 'ok' else (m[0], None)
            if mm != nn: mism.append('parse_render(%r): mir %r native %r' % (f, m, n))
        return len(fs), mism
    def case_of(self, v):
        m = v['model']; body = ''.join(chr(m['b%d' % i]) for i in range(m['len']))
        return {'show': {'formula': '=' + body, 'oblig': v['oblig']}, 'formula': '=' + body}
    def confirm(self, case, profile):
        return confirm_identity(case['formula'], profile)

class _PyCtx:
    def branch(self, e): return bool(e)
    def concretize(self, v): return v
def expected_text(body):
    ok, toks, notes = ref_lex(_PyCtx(), [ord(c) for c in body])
    if not ok: return None
    exp, _ = keep(_PyCtx(), toks)
    return ''.join(chr(c) for c in exp)
def confirm_identity(formula, profile):
    exp = expected_text(formula[1:])
    r = native.run_cases([['parse_render', formula]], profile, timeout_each=5)[0]
    r2 = native.run_cases([['cell_identity', formula]], profile, timeout_each=5)[0]
    if exp is None: return False, 'ill-formed by the reference lexer: no obligation'
    got = native.unhx(r[1][0]) if r[0] == 'ok' else None
    got2 = native.unhx(r2[1][0]) if r2[0] == 'ok' else None
    bad = r[0] != 'ok' or got != exp or r2[0] != 'ok' or got2 != exp
    return bad, 'render(parse(%r)) -> %s %r; Cell::set_formula+set_coordinate(same) -> %s %r; expected %r' % (formula, r[0], got if r[0] == 'ok' else r[1], r2[0], got2 if r2[0] == 'ok' else r2[1], exp)

from harness import fskel
from harness.fskel import Slot
QUAL_RE = re.compile(r"('(?:[^']|'')*'|[A-Za-z0-9_.]+)!$")
def expected_pieces(ctx, f, newvals, dead):
    """expected output variants (list of char lists): slots printed from newvals; a token in `dead` becomes #REF! (with or without its qualifier)"""
    ps = f.sk.pieces; variants = [[]]
    toks = f.tokens(); tok_of = {}
    for t in toks:
        for sl in t: tok_of[id(sl)] = t
    i = 0
    while i < len(ps):
        p = ps[i]
        if isinstance(p, str):
            nxt = ps[i + 1] if i + 1 < len(ps) else None
            if isinstance(nxt, Slot) and id(tok_of[id(nxt)]) in dead and QUAL_RE.search(p):
                q = QUAL_RE.search(p).group(0)
                variants = [v + [ord(ch) for ch in p] for v in variants] + [v + [ord(ch) for ch in p[:-len(q)]] for v in variants]
            else: variants = [v + [ord(ch) for ch in p] for v in variants]
            i += 1; continue
        t = tok_of[id(p)]
        span = 1 if len(t) == 1 else 3
        if id(t) in dead: add = [ord(ch) for ch in '#REF!']
        else:
            add = []
            for k, sl in enumerate(t):
                if k: add.append(58)
                c, r, lc, lr = newvals[sl.idx]
                add += sym_coord(ctx, c, r, lc, lr, 'e%d' % sl.idx)
        variants = [v + add for v in variants]
        i += span
    return variants
def any_eq(out, variants):
    cs = [chars_eq(out, v) for v in variants]
    if any(c is True for c in cs): return True
    cs = [c for c in cs if c is not False]
    return z3.Or(*cs) if cs else False

CELL = 'structs::cell::Cell::'
class Translate(Harness):
    name = 'translate'; property_id = 'C09'
    entry = [CELL + 'set_formula', CELL + 'set_coordinate', FML + 'adjustment_formula_coordinate']
    classes = {
        'beyond-grid-max': 'a reference pushed beyond column XFD / row 1048576 is printed as an out-of-grid coordinate instead of #REF! (only < 1 is checked)',
        'whole-row-col': "a whole-column or whole-row reference (A:A, 1:3) is not handled by the translator: column-only corners panic on unwrap, row-only corners are not moved",
    }
    def __init__(self, tier):
        self.tier = tier
        self.names = [s.name for s in fskel.SKELETONS]
        self.small = ([2, 12], [2, 5]) if tier == 'quick' else ([1, 30], [1, 12])
        self.doc = 'Cell::set_coordinate moves a formula cell by (dc, dr): exactly the non-$ parts of every reference move, references leaving the grid become #REF!, nothing else changes'
        self.bounds = {'skeletons': self.names, 'single_slot_domain': 'whole grid', 'multi_slot_domain': {'columns': self.small[0], 'rows': self.small[1]}, 'locks': 'slot 0: all four combinations, slot 1: none or both, further slots relative', 'move': 'every (dc, dr) keeping the cell inside the domain'}
    def run(self, it, ctx, res):
        k = ctx.sym_int('skel', 0, len(self.names) - 1)
        k = next(i for i in range(len(self.names)) if ctx.branch(k == i))
        sk = fskel.by_name(self.names[k])
        nslots = len({s.idx for s in sk.slots()})
        dom_c, dom_r = ([1, MAXC], [1, MAXR]) if nslots == 1 else self.small
        f = fskel.Filled(ctx, sk, dom_c, dom_r)
        cd_c, cd_r = (dom_c, dom_r) if nslots == 1 else ([2, 5], [2, 5])      # where the formula cell itself lives and moves to
        c0 = ctx.sym_int('from_c', cd_c[0], cd_c[1]); r0 = ctx.sym_int('from_r', cd_r[0], cd_r[1])
        c1 = ctx.sym_int('to_c', cd_c[0], cd_c[1]); r1 = ctx.sym_int('to_r', cd_r[0], cd_r[1])
        dc, dr = c1 - c0, r1 - r0
        text = f.text(ctx)
        info = {'skeleton': sk.name}
        newvals, dead, over = {}, set(), False
        for t in f.tokens():
            leaves = False
            for sl in t:
                c, r, lc, lr = f.vals[sl.idx]
                nc = c if (c is None or lc) else c + dc; nr = r if (r is None or lr) else r + dr
                newvals[sl.idx] = [nc, nr, lc, lr]
                conds = []
                if c is not None and not lc: conds += [nc < 1, nc > MAXC]
                if r is not None and not lr: conds += [nr < 1, nr > MAXR]
                if conds and ctx.branch(z3.Or(*conds)):
                    leaves = True
                    hi = [x for x in ([nc > MAXC] if c is not None and not lc else []) + ([nr > MAXR] if r is not None and not lr else [])]
                    if hi and ctx.branch(z3.Or(*hi)): over = True
            if leaves: dead.add(id(t))
        partial = any(sl.kind != 'cell' for sl in sk.slots())
        cls = [('whole-row-col', partial), ('beyond-grid-max', over)]
        try:
            cell = Box_(it.call('<structs::cell::Cell as std::default::Default>::default', []))
            co = it.call(CELL + 'get_coordinate_mut', [Ref(cell)])
            it.call('structs::coordinate::Coordinate::set_col_num', [co, c0]); it.call('structs::coordinate::Coordinate::set_row_num', [co, r0])
            it.call(CELL + 'set_formula::<&str>', [Ref(cell), sref(SStr(text))])
            it.call(CELL + 'set_coordinate::<(u32, u32)>', [Ref(cell), [c1, r1]])
            out = deref_all(it.call(CELL + 'get_formula', [Ref(cell)]))
        except Panic as e:
            self.fail(ctx, res, 'no-panic', str(e), classes=cls, info=info); return
        except Budget as e:
            self.fail(ctx, res, 'terminates', str(e), classes=cls, info=info); return
        variants = expected_pieces(ctx, f, newvals, dead)
        self.oblige(ctx, res, 'translated-text', any_eq(out.chars, variants), classes=cls, info=dict(info, dead=len(dead)))
    def case_of(self, v):
        m = v['model']; sk = fskel.by_name(self.names[m['skel']])
        text = fskel.concrete_text(sk, fskel.model_vals(sk, m))
        c = {'skeleton': sk.name, 'formula': text, 'from': [m['from_c'], m['from_r']], 'to': [m['to_c'], m['to_r']]}
        c['show'] = dict(c); return c
    def confirm(self, case, profile):
        (c0, r0), (c1, r1) = case['from'], case['to']
        r = native.run_cases([['cell_translate', c0, r0, case['formula'], c1, r1]], profile)[0]
        exp = ref_translate(case['formula'], c1 - c0, r1 - r0)
        got = native.unhx(r[1][0]) if r[0] == 'ok' else None
        return (r[0] != 'ok' or got not in exp), 'move %s from %s to %s -> %s %r expected %r' % (case['formula'], coord_str(c0, r0, 0, 0), coord_str(c1, r1, 0, 0), r[0], got if r[0] == 'ok' else r[1], exp[0])
    def validate(self, it, seed):
        cs = [(2, 2, 'SUM(A1:B2)+$C$3', 3, 4), (5, 5, "'My Sheet'!A1&\"A1\"", 4, 4), (1, 1, 'Other!B2*2', 1, 3), (3, 3, 'A1+B2', 1, 1), (2, 2, 'IF(C3>=1,"B2",#N/A)', 9, 9)]
        nat = native.run_cases([['cell_translate'] + list(c) for c in cs]); mism = []
        for c, n in zip(cs, nat):
            def fn():
                cell = Box_(it.call('<structs::cell::Cell as std::default::Default>::default', []))
                co = it.call(CELL + 'get_coordinate_mut', [Ref(cell)])
                it.call('structs::coordinate::Coordinate::set_col_num', [co, c[0]]); it.call('structs::coordinate::Coordinate::set_row_num', [co, c[1]])
                it.call(CELL + 'set_formula::<&str>', [Ref(cell), sref(c[2])])
                it.call(CELL + 'set_coordinate::<(u32, u32)>', [Ref(cell), [c[3], c[4]]])
                return pstr(it.call(CELL + 'get_formula', [Ref(cell)]))
            m = concrete(it, fn)
            nn = ('ok', native.unhx(n[1][0])) if n[0] == 'ok' else (n[0], None)
            if (m if m[0] == 'ok' else (m[0], None)) != nn: mism.append('cell_translate%r: mir %r native %r' % (c, m, n))
        return len(cs), mism

REF_RE = re.compile(r"(?P<q>(?:'(?:[^']|'')*'|[A-Za-z0-9_.]+)!)?(?P<a>\$?[A-Z]{1,3}\$?[0-9]+|\$?[A-Z]{1,3}(?=:)|\$?[0-9]+(?=:))(?::(?P<b>\$?[A-Z]{1,3}\$?[0-9]+|\$?[A-Z]{1,3}|\$?[0-9]+))?")
def split_outside_strings(text):
    """yield (segment, is_code): string literals and quoted names are not code"""
    out, i = [], 0
    for m in re.finditer(r'"(?:[^"]|"")*"', text):
        out.append((text[i:m.start()], True)); out.append((m.group(0), False)); i = m.end()
    out.append((text[i:], True))
    return out
def ref_translate(text, dc, dr):
    """reference translation on concrete text -> list of acceptable outputs"""
    def corner(t):
        mm = re.fullmatch(r'(\$?)([A-Z]*)(\$?)(\d*)', t)
        return [mm.group(1) == '$', index_of(mm.group(2)) if mm.group(2) else None, mm.group(3) == '$', int(mm.group(4)) if mm.group(4) else None]
    def pr(x): return ('$' if x[0] else '') + (letters_of(x[1]) if x[1] else '') + ('$' if x[2] else '') + (str(x[3]) if x[3] else '')
    outs = ['', '']
    for seg, code in split_outside_strings(text):
        if not code: outs = [o + seg for o in outs]; continue
        pos = 0; a_ = ''; b_ = ''
        for m in REF_RE.finditer(seg):
            if m.start() > 0 and (seg[m.start() - 1].isalnum() or seg[m.start() - 1] in '_.'): continue
            if m.end() < len(seg) and (seg[m.end()].isalnum() or seg[m.end()] in '_(.'): continue
            a_ += seg[pos:m.start()]; b_ += seg[pos:m.start()]; pos = m.end()
            cs = [corner(m.group('a'))] + ([corner(m.group('b'))] if m.group('b') else [])
            dead = False
            for x in cs:
                if x[1] is not None and not x[0]:
                    x[1] += dc; dead = dead or not 1 <= x[1] <= MAXC
                if x[3] is not None and not x[2]:
                    x[3] += dr; dead = dead or not 1 <= x[3] <= MAXR
            if dead: a_ += (m.group('q') or '') + '#REF!'; b_ += '#REF!'
            else:
                t = (m.group('q') or '') + ':'.join(pr(x) for x in cs); a_ += t; b_ += t
        a_ += seg[pos:]; b_ += seg[pos:]
        outs = [outs[0] + a_, outs[1] + b_]
    return outs

TEMPLATES = ['IF(A1="?",B1>=10,C1)', '?A1<>B2', "'?'!A1<=?", '"?"&A1>=?1', 'SUM(?1:B2)<>?', '{1,"?";2,3}<=?', 'A1?>=B2', '?(A1)<>"?"']
class LexHoles(LexIdentity):
    """longer formulas with symbolic characters in one or two positions: context-dependent lexing errors (look-ahead windows,
    byte/char offsets after a multi-byte character, state carried across tokens) need more text than the short fully symbolic bodies"""
    name = 'lex.holes'
    def __init__(self, tier):
        self.templates = TEMPLATES
        self.doc = 'render(parse_to_tokens("=" + body)) for %d formula templates whose "?" positions hold symbolic characters (all printable ASCII, U+00E9, U+3042), against the same reference lexer' % len(self.templates)
        self.bounds = {'templates': self.templates, 'hole_alphabet': 'all 95 printable ASCII characters plus U+00E9 and U+3042', 'step_budget': Interp.STEP_BUDGET}
    def run(self, it, ctx, res):
        ti = ctx.sym_int('template', 0, len(self.templates) - 1); t = self.templates[next(i for i in range(len(self.templates)) if ctx.branch(ti == i))]
        cs = []; k = 0
        for ch in t:
            if ch != '?': cs.append(ord(ch)); continue
            c = ctx.sym_int('b%d' % k, 32, 0x3042); k += 1
            ctx.define(z3.Or(c <= 126, c == 0xE9, c == 0x3042))
            if ctx.branch(c > 126): ctx.branch(c == 0xE9)
            cs.append(c)
        ok, toks, notes = ref_lex(ctx, cs)
        if not ok:
            res['illformed'] = True
            return 'illformed'
        concretize_ops(ctx, toks)
        exp, n2 = keep(ctx, toks)
        cls = [('apostrophe', notes['apostrophe']), ('unary-plus', n2['unary_plus']), ('at-function', notes['at_function'])]
        info = {'template': t, 'tokens': [x.kind for x in toks]}
        try:
            tl = it.call(FML + 'parse_to_tokens::<&str>', [sref(SStr([61] + cs))])
            out = it.call(FML + 'render', [Ref(Box_(tl))])
        except Panic as e:
            self.fail(ctx, res, 'no-panic', str(e), classes=cls, info=info); return
        except Budget as e:
            self.fail(ctx, res, 'terminates', str(e), classes=cls, info=info); return
        self.oblige(ctx, res, 'render(parse(f))==f', chars_eq(out.chars, exp), classes=cls, info=info)
    def validate(self, it, seed): return 0, []
    def case_of(self, v):
        m = v['model']; t = self.templates[m['template']]; k = 0; body = ''
        for ch in t:
            if ch == '?': body += chr(m.get('b%d' % k, 97)); k += 1
            else: body += ch
        return {'show': {'formula': '=' + body, 'oblig': v['oblig']}, 'formula': '=' + body}

def harnesses(tier):
    return [LexIdentity(tier), LexHoles(tier), Translate(tier)]
