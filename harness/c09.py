"""C09 — formula text survives the tokenizer; translation shifts only relative references."""
import random, re
import z3
from engine.core import *
from engine.check import Harness, concrete
from engine import native
from harness.c17 import MAXC, MAXR, sref, iref, letters_of, coord_str, sym_coord, chars_eq, index_of

ERRORS = ['#NULL!', '#DIV/0!', '#VALUE!', '#REF!', '#NAME?', '#NUM!', '#N/A']
OPS = '+-*/^&=><%'

# ---------------------------------------------------------------- reference lexer (oracle; independent of the implementation)
class Tok:
    def __init__(self, kind, chars): self.kind, self.chars = kind, chars
def ref_lex(ctx, cs):
    """Lexes the formula body `cs` (code points, possibly symbolic; decisions go through ctx.branch).
    -> (wellformed, tokens, notes).  Token kinds: operand, str, err, ws, op, lp, rp, lb, rb, comma, semi."""
    B = lambda e: ctx.branch(e) if not isinstance(e, bool) else e
    eq = lambda c, ch: B(c == ord(ch))
    toks, i, n = [], 0, len(cs)
    notes = {'apostrophe': False, 'bracket': False, 'at_function': False, 'hash_in_operand': False}
    def operand_piece(chars):
        if toks and toks[-1].kind == 'operand' and getattr(toks[-1], 'open', True): toks[-1].chars += chars
        else: toks.append(Tok('operand', list(chars)))
    def close_operand():
        if toks and toks[-1].kind == 'operand': toks[-1].open = False
    while i < n:
        c = cs[i]
        if eq(c, '"'):
            close_operand(); j = i + 1
            while True:
                if j >= n: return False, toks, notes            # unterminated string literal
                if eq(cs[j], '"'):
                    if j + 1 < n and eq(cs[j + 1], '"'): j += 2; continue
                    break
                j += 1
            toks.append(Tok('str', cs[i:j + 1])); i = j + 1; continue
        if eq(c, "'"):
            notes['apostrophe'] = True; j = i + 1
            while True:
                if j >= n: return False, toks, notes
                if eq(cs[j], "'"):
                    if j + 1 < n and eq(cs[j + 1], "'"): j += 2; continue
                    break
                j += 1
            operand_piece(cs[i:j + 1]); i = j + 1; continue
        if eq(c, '['):
            notes['bracket'] = True; j = i + 1
            while True:
                if j >= n: return False, toks, notes
                if eq(cs[j], ']'): break
                j += 1
            operand_piece(cs[i:j + 1]); i = j + 1; continue
        if eq(c, ']'): return False, toks, notes
        if eq(c, '#'):
            if toks and toks[-1].kind == 'operand' and getattr(toks[-1], 'open', True):
                notes['hash_in_operand'] = True; return False, toks, notes
            hit = None
            for e in ERRORS:
                if i + len(e) <= n and all(eq(cs[i + k], e[k]) for k in range(1, len(e))): hit = e; break
            if hit is None: return False, toks, notes
            toks.append(Tok('err', cs[i:i + len(hit)])); i += len(hit); continue
        if eq(c, ' '):
            close_operand(); j = i
            while j < n and eq(cs[j], ' '): j += 1
            toks.append(Tok('ws', cs[i:j])); i = j; continue
        kind = None
        for ch, k in (('(', 'lp'), (')', 'rp'), ('{', 'lb'), ('}', 'rb'), (',', 'comma'), (';', 'semi')):
            if eq(c, ch): kind = k; break
        if kind is None:
            for ch in OPS:
                if eq(c, ch): kind = 'op'; break
        if kind is None:
            operand_piece([c]); i += 1; continue
        if kind == 'lp' and toks and toks[-1].kind == 'operand' and getattr(toks[-1], 'open', True):
            t = Tok('lp', [c]); t.func = toks[-1]
            if eq(toks[-1].chars[0], '@'): notes['at_function'] = True
            close_operand(); toks.append(t); i += 1; continue
        close_operand(); toks.append(Tok(kind, [c])); i += 1
    # nesting
    stack = []
    for t in toks:
        if t.kind == 'lp': stack.append('(')
        elif t.kind == 'lb': stack.append('{')
        elif t.kind == 'rp':
            if not stack or stack.pop() != '(': return False, toks, notes
        elif t.kind == 'rb':
            if not stack or stack.pop() != '{': return False, toks, notes
        elif t.kind == 'comma':
            if not stack: return False, toks, notes
        elif t.kind == 'semi':
            if not stack or stack[-1] != '{': return False, toks, notes
    if stack: return False, toks, notes
    return True, toks, notes

def keep(ctx, toks):
    """expected text: blanks that are not intersection operators disappear, an intersection is one blank"""
    out = []; sig = [t for t in toks]
    notes = {'unary_plus': False}
    for k, t in enumerate(toks):
        if t.kind != 'ws': out += t.chars; continue
        prev = toks[k - 1] if k > 0 else None; nxt = toks[k + 1] if k + 1 < len(toks) else None
        left = prev is not None and prev.kind in ('operand', 'str', 'err', 'rp', 'rb')
        right = nxt is not None and nxt.kind in ('operand', 'str', 'err', 'lp', 'lb')
        if left and right: out.append(32)
    # unary plus: '+' whose left neighbour (ignoring blanks) is not a value end
    prev = None
    for t in toks:
        if t.kind == 'ws': continue
        if t.kind == 'op' and not is_sym(t.chars[0]) and t.chars[0] == 43:
            if prev is None or not (prev.kind in ('operand', 'str', 'err', 'rp', 'rb') or (prev.kind == 'op' and prev.chars[0] == 37)):
                notes['unary_plus'] = True
        prev = t
    return out, notes

def concretize_ops(ctx, toks):
    for t in toks:
        if t.kind == 'op' and is_sym(t.chars[0]):
            v = ctx.concretize(t.chars[0])
            if v is not None: t.chars[0] = v

FML = 'helper::formula::'
class LexIdentity(Harness):
    name = 'lex.identity'; property_id = 'C09'
    entry = [FML + 'parse_to_tokens', FML + 'render']
    classes = {
        'apostrophe': "a quoted sheet name is not tokenised as a path: the opening apostrophe switches the tokenizer into the string-literal state (in_string instead of in_path), so the qualifier loses its quotes / swallows the rest of the formula",
        'unary-plus': "a unary '+' is classified as a no-op and dropped from the token list, so the rendered formula loses a character",
        'at-function': "a leading '@' (implicit intersection) is stripped from function names",
    }
    def __init__(self, tier):
        self.maxn = 4 if tier == 'thorough' else 3
        self.doc = 'render(parse_to_tokens("=" + body)) for every body of 1..%d symbolic characters against a reference lexer: well-formed bodies must terminate, not panic and come back character for character (insignificant blanks excepted)' % self.maxn
        self.bounds = {'body_chars': [1, self.maxn], 'alphabet': 'all 95 printable ASCII characters plus U+00E9 and U+3042, every position symbolic', 'step_budget': Interp.STEP_BUDGET}
    def run(self, it, ctx, res):
        n = ctx.sym_int('len', 1, self.maxn)
        n = next(k for k in range(1, self.maxn + 1) if ctx.branch(n == k))
        cs = [ctx.sym_int('b%d' % i, 32, 0x3042) for i in range(n)]
        for c in cs:
            ctx.define(z3.Or(c <= 126, c == 0xE9, c == 0x3042))
            if ctx.branch(c > 126): ctx.branch(c == 0xE9)       # the two non-ASCII representatives are taken one at a time
        ok, toks, notes = ref_lex(ctx, cs)
        if not ok:
            res['illformed'] = True
            return 'illformed'
        concretize_ops(ctx, toks)
        exp, n2 = keep(ctx, toks)
        cls = [('apostrophe', notes['apostrophe']), ('unary-plus', n2['unary_plus']), ('at-function', notes['at_function'])]
        info = {'len': n, 'tokens': [t.kind for t in toks]}
        try:
            tl = it.call(FML + 'parse_to_tokens::<&str>', [sref(SStr([61] + cs))])
            out = it.call(FML + 'render', [Ref(Box_(tl))])
        except Panic as e:
            self.fail(ctx, res, 'no-panic', str(e), classes=cls, info=info); return
        except Budget as e:
            self.fail(ctx, res, 'terminates', str(e), classes=cls, info=info); return
        self.oblige(ctx, res, 'render(parse(f))==f', chars_eq(out.chars, exp), classes=cls, info=info)
    def validate(self, it, seed):
        fs = ['=10+9', '=SUM(E7:I7)', '=SUM(Sheet2!E7:I7)', '="TEST"', '="a""b"', '=A1 B2', '=A1  +B1', '=-A1', '=+A1', "='My Sheet'!A1+1", '={1,2;3,4}', '=IF(A1>=2,"x",#N/A)',
              '=a%', '=1E+5', '=@SUM(A1)', '=(A1,B2)', '= A1', '=A1:B2 C3', '=#REF!+1', '=é+1']
        nat = native.run_cases([['parse_render', f] for f in fs]); mism = []
        for f, n in zip(fs, nat):
            m = concrete(it, lambda: pstr(it.call(FML + 'render', [Ref(Box_(it.call(FML + 'parse_to_tokens::<&str>', [sref(f)])))])))
            nn = ('ok', native.unhx(n[1][0])) if n[0] == 'ok' else (n[0], None)
            mm = m if m[0] == 'ok' else (m[0], None)
            if mm != nn: mism.append('parse_render(%r): mir %r native %r' % (f, m, n))
        return len(fs), mism
    def case_of(self, v):
        m = v['model']; body = ''.join(chr(m['b%d' % i]) for i in range(m['len']))
        return {'show': {'formula': '=' + body, 'oblig': v['oblig']}, 'formula': '=' + body}
    def confirm(self, case, profile):
        return confirm_identity(case['formula'], profile)

class _PyCtx:
    def branch(self, e): return bool(e)
    def concretize(self, v): return v
def expected_text(body):
    ok, toks, notes = ref_lex(_PyCtx(), [ord(c) for c in body])
    if not ok: return None
    exp, _ = keep(_PyCtx(), toks)
    return ''.join(chr(c) for c in exp)
def confirm_identity(formula, profile):
    exp = expected_text(formula[1:])
    r = native.run_cases([['parse_render', formula]], profile, timeout_each=5)[0]
    r2 = native.run_cases([['cell_identity', formula]], profile, timeout_each=5)[0]
    if exp is None: return False, 'ill-formed by the reference lexer: no obligation'
    got = native.unhx(r[1][0]) if r[0] == 'ok' else None
    got2 = native.unhx(r2[1][0]) if r2[0] == 'ok' else None
    bad = r[0] != 'ok' or got != exp or r2[0] != 'ok' or got2 != exp
    return bad, 'render(parse(%r)) -> %s %r; Cell::set_formula+set_coordinate(same) -> %s %r; expected %r' % (formula, r[0], got if r[0] == 'ok' else r[1], r2[0], got2 if r2[0] == 'ok' else r2[1], exp)

def harnesses(tier):
    return [LexIdentity(tier)]
