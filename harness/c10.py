"""C10 — the cell store stays coherent under any history of operations (inductive step: arbitrary small store, one operation)."""
import z3
from engine.core import *
from engine.check import Harness, concrete
from engine import native
from harness.c17 import sref, iref, coord_str, sym_coord, letters_of
from harness.c07 import WS, new_sheet, put_cell, cell_tag

OPS = ['get_cell_mut', 'set_cell', 'remove_cell', 'insert_new_row', 'insert_new_column_by_index', 'remove_row', 'remove_column_by_index', 'cleanup']
def zsum(xs):
    t = 0
    for x in xs: t = t + x
    return t
def b2i(c): return (1 if c else 0) if isinstance(c, bool) else z3.If(c, 1, 0)
class StoreStep(Harness):
    name = 'store.step'; property_id = 'C10'
    entry = [WS + x for x in OPS] + ['structs::cells::Cells::rebuild_map_and_indices', WS + 'get_cell', WS + 'get_cell_collection_sorted', WS + 'get_highest_column_and_row']
    def __init__(self, tier):
        self.D = 3          # (a 4 x 4 domain with four cells did not finish in 20 minutes: > 100 000 paths and growing)
        self.ncells = 3 if tier == 'quick' else 4
        self.doc = 'a real Worksheet with three valued cells and one blank (optionally formatted) cell at symbolic pairwise distinct positions; one public operation with symbolic arguments; afterwards every observer agrees with the reference set of cells'
        self.bounds = {'cells': self.ncells, 'domain': '1..%d x 1..%d (all order/equality relations between cells, operation coordinate and band occur)' % (self.D, self.D), 'operations': OPS, 'band': 'position 1..%d, width 1..%d' % (self.D, self.D)}
    def run(self, it, ctx, res):
        D = self.D
        oi = ctx.sym_int('op', 0, len(OPS) - 1); op = OPS[next(i for i in range(len(OPS)) if ctx.branch(oi == i))]
        NC = self.ncells
        P = [(ctx.sym_int('c%d' % i, 1, D), ctx.sym_int('r%d' % i, 1, D)) for i in range(4)]
        if NC == 3: ctx.assume(z3.And(P[2][0] == 1, P[2][1] == 1)); P[2] = None       # quick tier: the third valued cell is left out
        for i in range(4):
            for j in range(i):
                if P[i] is not None and P[j] is not None: ctx.assume(z3.Or(P[i][0] != P[j][0], P[i][1] != P[j][1]))
        fmt = ctx.branch(ctx.sym_bool('blank_has_format'))
        x = ctx.sym_int('x', 1, D); y = ctx.sym_int('y', 1, D)        # operation coordinate, or band (p = x, n = y)
        info = {'op': op}
        try:
            ws = new_sheet(it)
            put_cell(it, ws, P[0][0], P[0][1], True); put_cell(it, ws, P[1][0], P[1][1], False)
            if P[2] is not None:
                c2 = it.call(WS + 'get_cell_mut::<(u32, u32)>', [Ref(ws), [P[2][0], P[2][1]]]); it.call('structs::cell::Cell::set_value_string::<&str>', [c2, sref('x')])
            c3 = it.call(WS + 'get_cell_mut::<(u32, u32)>', [Ref(ws), [P[3][0], P[3][1]]])
            if fmt:
                st = it.call('structs::cell::Cell::get_style_mut', [c3])
                nf = it.call('structs::style::Style::get_number_format_mut', [st])
                it.call('structs::numbering_format::NumberingFormat::set_format_code::<&str>', [nf, sref('0.00')])
            # reference: entries (col, row, tag, alive)
            ref = [[P[0][0], P[0][1], 1, True], [P[1][0], P[1][1], 2, True]] + ([[P[2][0], P[2][1], 3, True]] if P[2] is not None else []) + [[P[3][0], P[3][1], 4, True]]
            at = lambda c, r: [e for e in ref if e[3] and ctx.branch(z3.And(e[0] == c, e[1] == r))]
            if op == 'get_cell_mut':
                if not at(x, y): ref.append([x, y, 4, True])
                it.call(WS + 'get_cell_mut::<(u32, u32)>', [Ref(ws), [x, y]])
            elif op == 'set_cell':
                hit = at(x, y)
                for e in hit: e[3] = False
                ref.append([x, y, 1, True])
                cell = Box_(it.call('<structs::cell::Cell as std::default::Default>::default', []))
                co = it.call('structs::cell::Cell::get_coordinate_mut', [Ref(cell)])
                it.call('structs::coordinate::Coordinate::set_col_num', [co, x]); it.call('structs::coordinate::Coordinate::set_row_num', [co, y])
                it.call('structs::cell::Cell::set_value_bool', [Ref(cell), True])
                it.call(WS + 'set_cell', [Ref(ws), cell.v])
            elif op == 'remove_cell':
                for e in at(x, y): e[3] = False
                it.call(WS + 'remove_cell::<(u32, u32)>', [Ref(ws), [x, y]])
            elif op == 'cleanup':
                it.call(WS + 'cleanup', [Ref(ws)])
            else:
                k = 1 if 'row' in op else 0
                for e in ref:
                    v = e[k]
                    if 'insert' in op: e[k] = z3.If(v >= x, v + y, v)
                    else:
                        if ctx.branch(z3.And(v >= x, v < x + y)): e[3] = False
                        else: e[k] = z3.If(v >= x + y, v - y, v)
                it.call(WS + op, [Ref(ws), iref(x), iref(y)])
        except Panic as e:
            self.fail(ctx, res, 'no-panic', str(e), info=info); return
        try:
            self.observe(it, ctx, res, ws, ref, op, info)
        except Panic as e:
            self.fail(ctx, res, 'no-panic', 'observer: ' + str(e), info=info)
    def observe(self, it, ctx, res, ws, ref, op, info):
        strict = op != 'cleanup'        # cleanup may delete blank cells: its result is only checked for coherence
        cells = it.call(WS + 'get_cell_collection_sorted', [Ref(ws)])
        coords = []
        for c in cells:
            co = it.call('structs::cell::Cell::get_coordinate', [c])
            coords.append((deref_all(it.call('structs::coordinate::Coordinate::get_col_num', [co])), deref_all(it.call('structs::coordinate::Coordinate::get_row_num', [co]))))
        alive = [e for e in ref if e[3]]
        if strict:
            self.oblige(ctx, res, 'count', len(cells) == len(alive), info=dict(info, listed=len(cells), expected=len(alive)))
            for e in alive:
                got = cell_tag(it, ws, e[0], e[1])
                want = {1: 1, 2: 2, 3: 3, 4: 3}[e[2]] if e[2] != 4 else None
                self.oblige(ctx, res, 'lookup-finds-existing', (got != 0) if want is None else (got == (3 if e[2] == 3 else e[2])), info=dict(info, got=got, tag=e[2]))
        # coherence of the store itself (also after cleanup)
        asc = [z3.Or(coords[i][1] < coords[i + 1][1], z3.And(coords[i][1] == coords[i + 1][1], coords[i][0] < coords[i + 1][0])) for i in range(len(coords) - 1)]
        self.oblige(ctx, res, 'sorted-listing-strictly-ascending', z3.And(*asc) if asc else True, info=info)
        unsorted = len(it.call(WS + 'get_cell_collection', [Ref(ws)]))
        self.oblige(ctx, res, 'listings-agree', unsorted == len(cells), info=info)
        for (c, r) in coords:
            o = it.call(WS + 'get_cell::<(u32, u32)>', [Ref(ws), [c, r]])
            ok = o.variant == 1
            if ok:
                co = it.call('structs::cell::Cell::get_coordinate', [o.fields[0]])
                ok = z3.And(deref_all(it.call('structs::coordinate::Coordinate::get_col_num', [co])) == c, deref_all(it.call('structs::coordinate::Coordinate::get_row_num', [co])) == r)
            self.oblige(ctx, res, 'listed-cell-is-found-at-its-own-coordinate', ok, info=info)
            rd = it.call(WS + 'get_row_dimension', [Ref(ws), iref(r)])
            self.oblige(ctx, res, 'row-of-every-cell-known-to-writer', rd.variant == 1, info=info)
            by_row = it.call(WS + 'get_collection_by_row', [Ref(ws), iref(r)])
            self.oblige(ctx, res, 'by-row-listing', zsum(b2i(rr == r) for (_, rr) in coords) == len(by_row), info=dict(info, n=len(by_row)))
            by_col = it.call(WS + 'get_collection_by_column', [Ref(ws), iref(c)])
            self.oblige(ctx, res, 'by-column-listing', zsum(b2i(cc == c) for (cc, _) in coords) == len(by_col), info=dict(info, n=len(by_col)))
        hi = it.call(WS + 'get_highest_column_and_row', [Ref(ws)])
        if coords:
            mc = z3.And(z3.Or(*[hi[0] == c for c, _ in coords]), *[hi[0] >= c for c, _ in coords]); mr = z3.And(z3.Or(*[hi[1] == r for _, r in coords]), *[hi[1] >= r for _, r in coords])
            self.oblige(ctx, res, 'highest-column-and-row', z3.And(mc, mr), info=info)
        else: self.oblige(ctx, res, 'highest-column-and-row', z3.And(hi[0] == 0, hi[1] == 0) if is_sym(hi[0]) or is_sym(hi[1]) else (hi[0] == 0 and hi[1] == 0), info=info)
    def case_of(self, v):
        m = v['model']
        c = {'op': OPS[m['op']], 'cells': [[m['c%d' % i], m['r%d' % i]] for i in range(4)], 'ncells': self.ncells, 'blank_has_format': bool(m['blank_has_format']), 'x': m['x'], 'y': m['y'], 'oblig': v['oblig']}
        c['show'] = dict(c); return c
    def confirm(self, case, profile):
        flat = [v for p in case['cells'] for v in p]
        r = native.run_cases([['store_step', case['op'], case['x'], case['y'], case['blank_has_format']] + flat + [case.get('ncells', 4)]], profile)[0]
        if r[0] != 'ok': return True, 'store step %r -> %s %s' % (case['show'], r[0], r[1])
        return r[1][0] != 'coherent', 'store step %r -> %s' % (case['show'], [native.unhx(x) if i else x for i, x in enumerate(r[1])])

from harness.c07 import SheetMove
from harness.c17 import sym_coord
class MoveCopyStep(Harness):
    """move_range / copy_range rebuild part of the store themselves: the same coherence observers as for the single operations"""
    name = 'store.move_copy'; property_id = 'C10'
    entry = [WS + 'move_range', WS + 'copy_range', WS + 'move_or_copy_range', WS + 'get_cell_collection_sorted', WS + 'get_row_dimension']
    def __init__(self, tier):
        self.D = 3 if tier == 'thorough' else 2
        self.doc = 'move_range / copy_range of a symbolic rectangle by a symbolic offset on a real Worksheet holding two cells; afterwards the store is coherent: sorted listing strictly ascending, listings agree, every listed cell is found at its own coordinate, its row is known to the writer, by-row / by-column listings and highest column/row agree'
        self.bounds = {'cells': 2, 'domain': '1..%d x 1..%d for the source rectangle, cells in 1..%d' % (self.D, self.D, 2 * self.D), 'offset': 'every offset that keeps the destination inside the grid'}
    def run(self, it, ctx, res):
        D = self.D
        mv = ctx.branch(ctx.sym_bool('is_move'))
        ca = ctx.sym_int('ca', 1, 2 * D); ra = ctx.sym_int('ra', 1, 2 * D); cb = ctx.sym_int('cb', 1, 2 * D); rb = ctx.sym_int('rb', 1, 2 * D)
        ctx.assume(z3.Or(ca != cb, ra != rb))
        c1 = ctx.sym_int('c1', 1, D); c2 = ctx.sym_int('c2', 1, D); r1 = ctx.sym_int('r1', 1, D); r2 = ctx.sym_int('r2', 1, D)
        dc = ctx.sym_int('dc', -D, D); dr = ctx.sym_int('dr', -D, D)
        ctx.assume(z3.And(c1 <= c2, r1 <= r2, c1 + dc >= 1, r1 + dr >= 1, z3.Or(dc != 0, dr != 0)))
        info = {'op': 'move_range' if mv else 'copy_range'}
        text = sym_coord(ctx, c1, r1, False, False, 'a') + [58] + sym_coord(ctx, c2, r2, False, False, 'b')
        try:
            ws = new_sheet(it)
            put_cell(it, ws, ca, ra, True); put_cell(it, ws, cb, rb, False)
            it.call(WS + ('move_range' if mv else 'copy_range'), [Ref(ws), sref(SStr(text)), iref(dr), iref(dc)])
        except Panic as e:
            self.fail(ctx, res, 'no-panic', str(e), info=info); return
        try:
            StoreStep.observe(self, it, ctx, res, ws, [], 'cleanup', info)
        except Panic as e:
            self.fail(ctx, res, 'no-panic', 'observer: ' + str(e), info=info)
    def case_of(self, v):
        return SheetMove.case_of(self, v)
    def confirm(self, case, profile):
        (ca, ra), (cb, rb) = case['cells']; dc, dr = case['d']
        r = native.run_cases([['store_move', case['move'], ca, ra, cb, rb, case['range'], dr + 100, dc + 100]], profile)[0]
        if r[0] != 'ok': return True, '%r -> %s %s' % (case['show'], r[0], r[1])
        return r[1][0] != 'coherent', 'store after %s %r -> %s' % ('move_range' if case['move'] else 'copy_range', case['show'], [native.unhx(x) if i else x for i, x in enumerate(r[1])])

def harnesses(tier):
    return [StoreStep(tier), MoveCopyStep(tier)]
OPTIONS = {'want_smir': True}
