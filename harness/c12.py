"""C12 (kernel) — a saved file contains only content of the workbook being saved: the shared-strings part that the real
make_buffer assembles holds exactly the texts of the string cells the workbook has at that moment, for short edit/save histories."""
import re
import z3
from engine.core import *
from engine.check import Harness, concrete
from engine import native, xmlmodel, containers
from harness.c17 import sref, iref, chars_eq
from harness.c07 import WS

CELL = 'structs::cell::Cell::'
BOOK = 'structs::spreadsheet::Spreadsheet::'
CUR = 'std::io::Cursor<std::vec::Vec<u8>>'
HISTORIES = ['save', 'save_save', 'overwrite_save', 'save_overwrite_save', 'save_remove_save', 'clone_edit_save_clone_then_original', 'save_set_same_save']

class Parts:
    def __init__(self): self.parts = []          # [(path chars, Recorder)]
def install_writer_stubs(it, parts):
    """everything of the package assembly except the sheet part's cell loop and the shared-strings part is stubbed out"""
    ok = lambda v: (lambda it_, callee, *a: OK(v() if callable(v) else v))
    S_ = lambda: SStr([])
    pats = [
        (r'writer::xlsx::(doc_props_app|doc_props_core|doc_props_custom|vba_project_bin|rels|theme|styles|workbook|workbook_rels|content_types|media|drawing_rels|vml_drawing_rels|worksheet_rels)::write::<.*>', ok([])),
        (r'writer::xlsx::(chart|comment|printer_settings)::write::<.*>', ok(S_)),
        (r'writer::xlsx::(drawing|vml_drawing)::write::<.*>', ok(lambda: [SStr([]), []])),
        (r'writer::xlsx::embeddings::write::<.*>', ok(lambda: [[], []])),
        (r'writer::xlsx::table::write::<.*>', ok(lambda: [])),
        (r'zip::(write::<impl zip::ZipWriter<.*>>|ZipWriter::<.*>)::new', lambda it_, callee, *a: 'ZIP'),
        (r'zip::(write::<impl zip::ZipWriter<.*>>|ZipWriter::<.*>)::finish', lambda it_, callee, *a: OK('ZIPCURSOR')),
        (r'std::io::Cursor::<.*>::into_inner', lambda it_, callee, c: [] if c == 'ZIPCURSOR' else c),
        (r'std::io::Cursor::<.*>::new', lambda it_, callee, v: v),
        (r'quick_xml::Writer::<.*>::new', lambda it_, callee, *a: xmlmodel.Recorder()),
        (r"quick_xml::events::BytesDecl::<'_>::new", lambda it_, callee, *a: 'DECL'),
        (r'writer::driver::write_new_line::<.*>', lambda it_, callee, *a: []),
        (r'writer::driver::make_file_from_writer::<.*>', lambda it_, callee, path, arv, writer, d, light: (parts.parts.append((list(deref_all(path).chars), deref_all(writer))), OK([]))[1]),
        (r'writer::driver::make_file_from_bin::<.*>', lambda it_, callee, *a: OK([])),
        # sheet-level sub-writers that are not cells or rows
        (r'structs::(?!cell::|cell_value::|cell_formula::|row::|rows::|shared_string_table::|shared_string_item::|text::|rich_text::|text_element::|phonetic_run::)[\w:]+::write_to(_\w+)?(::<.*>)?', lambda it_, callee, *a: []),
        (r'<structs::.* as .*>::write_to(::<.*>)?', lambda it_, callee, *a: []),
    ]
    it.stub_patterns = [(re.compile(p), f) for p, f in pats]

def strings_of_part(it, rec):
    """texts of the <t> elements of a recorded shared-strings part, in order"""
    out, cur = [], None
    for ev in rec.events:
        name = ev.variant if isinstance(ev.variant, str) else xmlmodel.event_order()[ev.variant]
        if name == 'Start' and deref_all(ev.fields[0]).name == 't': cur = []
        elif name == 'Text' and cur is not None:
            t = xmlmodel.unescape(it, ev.fields[0].raw); cur = (cur or []) + list(t if t is not None else ev.fields[0].raw)
        elif name == 'End' and getattr(deref_all(ev.fields[0]), 'name', None) == 't' and cur is not None: out.append(cur); cur = None
        elif name == 'Empty' and deref_all(ev.fields[0]).name == 't': out.append([])
    return out

def cell_refs(it, rec):
    """(cell reference text, shared-string index) of every <c t="s"> of a recorded sheet part"""
    out, cur, inv = [], None, False
    order = xmlmodel.event_order()
    for ev in rec.events:
        name = ev.variant if isinstance(ev.variant, str) else order[ev.variant]
        el = deref_all(ev.fields[0]) if ev.fields else None
        if name in ('Start', 'Empty') and el.name == 'c':
            a = {k: v for k, v in el.attrs}
            cur = ''.join(chr(c) for c in a.get('r', [])) if ''.join(chr(c) for c in a.get('t', [])) == 's' else None
        elif name == 'Start' and el.name == 'v': inv = True
        elif name == 'Text' and inv and cur is not None:
            raw = ev.fields[0].raw
            if all(isinstance(c, int) for c in raw): out.append((cur, int(''.join(chr(c) for c in raw))))
            else: raise Unsupported('symbolic shared-string index')
        elif name == 'End' and getattr(el, 'name', None) == 'v': inv = False
    return out

def table_ref(arc):
    """&mut SharedStringTable inside an Arc<RwLock<..>> value of the interpreter (Arc is a pointer object, RwLock is transparent)"""
    v = arc
    while isinstance(v, Ref): v = v.get()
    if isinstance(v, BoxPtr): return Ref(v.cell)
    raise Unsupported('shared string table handle is not an Arc pointer: %r' % type(v).__name__)

class SaveHistory(Harness):
    name = 'shared_strings.save_history'; property_id = 'C12'
    entry = ['writer::xlsx::make_buffer', 'writer::xlsx::worksheet::write', 'writer::xlsx::shared_strings::write', CELL + 'write_to', 'structs::shared_string_table::SharedStringTable::set_cell', 'structs::shared_string_table::SharedStringTable::write_to']
    classes = {}
    def __init__(self, tier):
        self.maxn = 2 if tier == 'quick' else 3
        self.doc = 'the real writer::xlsx::make_buffer (every part writer except the sheet part and the shared-strings part stubbed, XML by contract model) on a real workbook with two text cells of symbolic content, for the histories %s: the <t> texts of the shared-strings part of each save are exactly the texts of the string cells of the workbook being saved at that moment, each once, and every cell of the sheet part refers to the index of its own text' % ', '.join(HISTORIES)
        self.bounds = {'histories': HISTORIES, 'cells': 2, 'text_chars': [1, self.maxn], 'alphabet': 'a-c', 'workbook_table': 'empty (new workbook) or already holding the strings of the cells (workbook read from a file)', 'sheets': 'one, deserialised (workbooks with unloaded raw sheets keep the loaded table by design and are outside the kernel)', 'stubs': 'all part writers except worksheet and sharedStrings; zip archive; non-cell children of the sheet part'}
    def setup(self, it):
        from engine import cryptomodel as cm
        xmlmodel.install(it); xmlmodel.install_events(it); cm.install(it); cm.install_digests(it)
    def text(self, ctx, tag):
        n = ctx.sym_int(tag + 'len', 1, self.maxn); n = next(k for k in range(1, self.maxn + 1) if ctx.branch(n == k))
        return [ctx.sym_int('%s%d' % (tag, i), 97, 99) for i in range(n)]
    def save(self, it, book):
        parts = Parts(); install_writer_stubs(it, parts)
        try:
            r = it.call('writer::xlsx::make_buffer', [Ref(book), False])
        finally: it.stub_patterns = []
        if r.variant != 0: raise Panic('make_buffer returned Err')
        sst = [rec for path, rec in parts.parts if ''.join(chr(c) for c in path) == 'xl/sharedStrings.xml']
        if len(sst) > 1: raise Panic('two sharedStrings parts')
        sheets = [rec for path, rec in parts.parts if ''.join(chr(c) for c in path).startswith('xl/worksheets/sheet')]
        self.last_refs = [x for rec in sheets for x in cell_refs(it, rec)]
        return strings_of_part(it, sst[0]) if sst else []
    def set_text(self, it, book, col, cs):
        ws = it.call(BOOK + 'get_sheet_mut', [Ref(book), iref(0)]).fields[0]
        cell = it.call(WS + 'get_cell_mut::<(u32, u32)>', [ws, [col, 1]])
        it.call(CELL + 'set_value_string::<&str>', [cell, sref(SStr(cs))])
    def run(self, it, ctx, res):
        from engine import cryptomodel as cm
        it.world = cm.World()
        hi = ctx.sym_int('history', 0, len(HISTORIES) - 1); hist = HISTORIES[next(i for i in range(len(HISTORIES)) if ctx.branch(hi == i))]
        t1, t2, t3 = self.text(ctx, 'x'), self.text(ctx, 'y'), self.text(ctx, 'z')
        info = {'history': hist}
        saves = []          # (label, expected list of texts (as multiset of char lists), got)
        try:
            book = Box_(it.call('<structs::spreadsheet::Spreadsheet as std::default::Default>::default', []))
            it.call(BOOK + 'new_sheet::<&str>', [Ref(book), sref('S')])
            self.set_text(it, book, 1, t1); self.set_text(it, book, 2, t2)
            cur = [t1, t2]
            if ctx.branch(ctx.sym_bool('loaded_table')):
                # the state after reading a file: the workbook's own table already holds the strings of its cells
                info['loaded_table'] = True
                tab = it.call(BOOK + 'get_shared_string_table', [Ref(book)])
                ws0 = it.call(BOOK + 'get_sheet_mut', [Ref(book), iref(0)]).fields[0]
                for col in (1, 2):
                    cell = it.call(WS + 'get_cell_mut::<(u32, u32)>', [ws0, [col, 1]])
                    it.call('structs::shared_string_table::SharedStringTable::set_cell', [table_ref(tab), it.call(CELL + 'get_cell_value', [cell])])
            if hist == 'save': saves.append(self.snap('save', list(cur), self.save(it, book)))
            elif hist == 'save_save':
                saves.append(self.snap('first save', list(cur), self.save(it, book))); saves.append(self.snap('second save', list(cur), self.save(it, book)))
            elif hist == 'overwrite_save':
                self.set_text(it, book, 1, t3); cur = [t3, t2]; saves.append(self.snap('save after overwrite', list(cur), self.save(it, book)))
            elif hist == 'save_overwrite_save':
                saves.append(self.snap('first save', list(cur), self.save(it, book)))
                self.set_text(it, book, 1, t3); cur = [t3, t2]; saves.append(self.snap('save after overwrite', list(cur), self.save(it, book)))
            elif hist == 'save_remove_save':
                saves.append(self.snap('first save', list(cur), self.save(it, book)))
                ws = it.call(BOOK + 'get_sheet_mut', [Ref(book), iref(0)]).fields[0]
                it.call(WS + 'remove_cell::<(u32, u32)>', [ws, [1, 1]]); cur = [t2]
                saves.append(self.snap('save after removing A1', list(cur), self.save(it, book)))
            elif hist == 'clone_edit_save_clone_then_original':
                clone = Box_(it.call('<structs::spreadsheet::Spreadsheet as std::clone::Clone>::clone', [Ref(book)]))
                self.set_text(it, clone, 1, t3)
                saves.append(self.snap('save of the edited clone', [t3, t2], self.save(it, clone)))
                saves.append(self.snap('save of the original', list(cur), self.save(it, book)))
            elif hist == 'save_set_same_save':
                saves.append(self.snap('first save', list(cur), self.save(it, book)))
                self.set_text(it, book, 1, t1); saves.append(self.snap('save after re-setting the same text', list(cur), self.save(it, book)))
        except Panic as e:
            self.fail(ctx, res, 'no-panic', str(e), info=info); return
        for label, want, got, refs, cells in saves:
            for ref, idx in refs:
                own = cells.get(ref)
                good = own is not None and 0 <= idx < len(got) and len(got[idx]) == len(own) and self.same(ctx, got[idx], own)
                self.oblige(ctx, res, 'cell-index-points-to-its-own-string', bool(good), info=dict(info, save=label, cell=ref, index=idx))
            self.oblige(ctx, res, 'every-text-cell-written-as-shared-string', sorted(r for r, _ in refs) == sorted(cells), info=dict(info, save=label, refs=[r for r, _ in refs]))
            # distinct expected texts (equal cells share one entry)
            uniq = []
            for w in want:
                if not any(len(w) == len(u) and self.same(ctx, w, u) for u in uniq): uniq.append(w)
            inf = dict(info, save=label, expected=len(uniq), found=len(got))
            extra = [g for g in got if not any(len(g) == len(u) and self.same(ctx, g, u) for u in uniq)]
            missing = [u for u in uniq if not any(len(g) == len(u) and self.same(ctx, g, u) for g in got)]
            self.oblige(ctx, res, 'no-foreign-string-in-the-package', not extra, info=dict(inf, extra=len(extra)))
            self.oblige(ctx, res, 'every-cell-string-present', not missing, info=inf)
            self.oblige(ctx, res, 'each-string-once', len(got) - len(extra) == len(uniq) - len(missing), info=inf)
    def snap(self, label, want, got):
        cells = {'A1': want[0], 'B1': want[1]} if len(want) == 2 else {'B1': want[0]}
        return (label, want, got, list(self.last_refs), cells)
    def same(self, ctx, a, b):
        e = chars_eq(a, b)
        return e if isinstance(e, bool) else ctx.branch(e)
    def case_of(self, v):
        m = v['model']
        f = lambda t: ''.join(chr(m['%s%d' % (t, i)]) for i in range(m.get(t + 'len', 1)))
        c = {'history': HISTORIES[m['history']], 'a1': f('x'), 'b1': f('y'), 'new': f('z'), 'loaded': bool(m.get('loaded_table')), 'oblig': v['oblig']}; c['show'] = dict(c); return c
    def confirm(self, case, profile):
        r = native.run_cases([['save_history', case['history'], case['a1'], case['b1'], case['new'], bool(case.get('loaded'))]], profile, timeout_each=120)[0]
        if r[0] != 'ok': return True, 'history %r -> %r' % (case['show'], r)
        rows = [native.unhx(x) for x in r[1]]
        bad = [row for row in rows if row.split(' | ')[1] != row.split(' | ')[2] or row.split(' | ')[3] != 'cells reload unchanged']
        return bool(bad), 'history %s with A1=%r B1=%r new=%r: per save "label | strings of the cells | <t> texts of xl/sharedStrings.xml | reload": %r' % (case['history'], case['a1'], case['b1'], case['new'], rows)

def harnesses(tier):
    return [SaveHistory(tier)]
OPTIONS = {'want_smir': True}
