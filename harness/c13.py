"""C13 — saving to a path is all-or-nothing under I/O failure; a failing caller-supplied writer yields an error, not a panic."""
import z3
from engine.core import *
from engine.check import Harness, concrete
from engine import native, iomodel
from harness.c17 import sref, iref

SIZES_Q = [0, 1, 100, 8191, 8192, 8193, 20000]
DEST, OLD = 'out.xlsx', ('old', 3)

class PathSave(Harness):
    property_id = 'C13'
    classes = {'flush-on-drop': 'the BufWriter over the temp file is a temporary that is dropped without an explicit flush: a write error that only surfaces at flush time is discarded, the call returns Ok and the truncated temp file is renamed over the destination'}
    def __init__(self, tier, name, fn, light=None, stub_writer=None):
        self.name = 'path.' + name; self.fn = fn; self.stub_writer = stub_writer
        self.sizes = SIZES_Q if tier == 'quick' else SIZES_Q + [5000, 16384, 16385, 1048575, 1048576, 1048577]
        self.entry = [fn]
        self.doc = '%s with the package assembly stubbed (Ok(bytes of symbolic size class) or Err): file system and BufWriter by contract with symbolic faults; result Ok => destination complete and no temp file, Err => destination untouched, destination never partial' % fn
        self.bounds = {'package_sizes': self.sizes, 'write_fault': 'disk accepts a symbolic number of bytes 0..size+1', 'metadata_faults': 'create, rename, remove fail independently', 'destination': 'exists before with old content'}
    def setup(self, it):
        iomodel.install(it)
    def run(self, it, ctx, res):
        si = ctx.sym_int('size_class', 0, len(self.sizes) - 1)
        N = self.sizes[next(i for i in range(len(self.sizes)) if ctx.branch(si == i))]
        buf_ok = ctx.branch(ctx.sym_bool('make_buffer_ok'))
        it.fs = iomodel.FS(it, ctx, N + 1); it.fs.dest = DEST
        it.fs.files[DEST] = OLD
        # a temp file left behind by an earlier save that was killed before its rename: shorter or longer than the new package
        stale = N > 0 and ctx.branch(ctx.sym_bool('stale_tmp'))
        if stale: it.fs.files[DEST + 'tmp'] = ('stale', N + 5 if ctx.branch(ctx.sym_bool('stale_longer')) else max(0, N - 1))
        stubs = {'writer::xlsx::make_buffer': lambda it_, book, light: OK([7] * N) if buf_ok else ERR(Adt(0, ['make_buffer failed']))}
        if self.stub_writer:
            def csv_ww(it_, book, w, opt):
                if not buf_ok: return ERR(Adt(0, ['csv assembly failed']))
                r = deref_all(w).write_all(it_, [7] * N)
                return OK([]) if r.variant == 0 else ERR(it_.call('<structs::error::XlsxError as std::convert::From<std::io::Error>>::from', [r.fields[0]]))
            stubs[self.stub_writer] = csv_ww
        it.stubs = stubs
        info = {'size': N, 'make_buffer_ok': buf_ok, 'stale_tmp': it.fs.files.get(DEST + 'tmp')}
        try:
            args = [Ref(Box_('BOOK')), sref(DEST)]
            if 'csv' in self.fn: args.append(NONE())
            r = it.call(self.fn, args)
        except Panic as e:
            self.fail(ctx, res, 'no-panic', str(e), info=dict(info, log=[l[0] for l in it.fs.log])); return
        finally:
            it.stubs = {}
        ok = r.variant == 0
        dest = it.fs.files.get(DEST); tmp = it.fs.files.get(DEST + 'tmp')
        info.update(result='Ok' if ok else 'Err', log=['%s:%s' % (a, 'ok' if b else 'FAIL') for a, b in it.fs.log][:12])
        cls = [('flush-on-drop', True)]
        if ok:
            good = False if dest is None or dest[0] != 'new' else (dest[1] == N)
            self.oblige(ctx, res, 'Ok=>destination-complete', good, classes=cls, info=info)
            self.oblige(ctx, res, 'Ok=>no-temp-file', tmp is None, info=info)
        else:
            self.oblige(ctx, res, 'Err=>destination-untouched', dest == OLD, info=info)
        bad = [s for s in it.fs.snapshots if s is not None and s != OLD and not (s[0] == 'new' and isinstance(z3.simplify(s[1] == N) if is_sym(s[1]) else s[1] == N, bool) and (s[1] == N))]
        conds = []
        for s in it.fs.snapshots:
            if s is None or s == OLD: continue
            conds.append(s[1] == N if s[0] == 'new' else False)
        prop = True
        if conds:
            prop = False if any(c is False for c in conds) else (z3.And(*[c for c in conds if c is not True]) if any(c is not True for c in conds) else True)
        self.oblige(ctx, res, 'destination-never-partial', prop, classes=cls, info=info)
    def case_of(self, v):
        m = v['model']
        c = {'fn': self.fn, 'size': self.sizes[m['size_class']], 'write_limit': m['fs_write_limit'], 'oblig': v['oblig'], 'faults': {k: val for k, val in m.items() if k.startswith('fs_ok_')},
             'stale_tmp': (None if not m.get('stale_tmp') else ('longer' if m.get('stale_longer') else 'shorter'))}
        c['show'] = dict(c); return c
    def confirm(self, case, profile):
        # native fault injection: the real writer under RLIMIT_FSIZE = write_limit (only write faults are replayed)
        if any(v is False for v in case['faults'].values()) and case['oblig'] != 'no-panic':
            return False, 'metadata faults (create/rename/remove) are not replayed natively'
        kind = 'csv' if 'csv' in case['fn'] else ('xlsx_light' if 'light' in case['fn'] else 'xlsx')
        r = native.run_fsize(kind, case['write_limit'], profile, model_size=case['size'], stale_tmp=case.get('stale_tmp'))
        bad = (r['result'] == 'Ok' and not r['dest_complete']) or (r['result'] == 'Err' and not r['dest_is_old']) or r['result'] not in ('Ok', 'Err')
        return bad, 'native %s save with RLIMIT_FSIZE=%d: %s' % (kind, case['write_limit'], r)

class PasswordSave(Harness):
    property_id = 'C13'
    classes = {'encrypt-panics-on-io-error': "helper::crypt::encrypt returns () and unwraps cfb::create / create_stream / write_all: an I/O failure while writing the encrypted temp file is a panic, not an Err (write_with_password, write_with_password_light, set_password)"}
    def __init__(self, tier, name, fn):
        self.name = 'path.' + name; self.fn = fn; self.entry = [fn, 'helper::crypt::encrypt']
        self.sizes = [0, 100, 5000]
        self.doc = '%s: package assembly, key derivation and EncryptionInfo XML stubbed, the compound-file writer by contract with symbolic faults' % fn
        self.bounds = {'package_sizes': self.sizes, 'faults': 'create/rename fail independently, disk accepts a symbolic number of bytes'}
    def setup(self, it):
        from engine import cryptomodel as cm
        iomodel.install(it); cm.install(it)
    def run(self, it, ctx, res):
        from engine import cryptomodel as cm
        si = ctx.sym_int('size_class', 0, len(self.sizes) - 1)
        N = self.sizes[next(i for i in range(len(self.sizes)) if ctx.branch(si == i))]
        buf_ok = ctx.branch(ctx.sym_bool('make_buffer_ok'))
        it.fs = iomodel.FS(it, ctx, 2 * N + 64); it.fs.dest = DEST; it.fs.files[DEST] = OLD
        it.world = cm.World()
        it.stubs = {'writer::xlsx::make_buffer': lambda it_, book, light: OK(list(cm.Term('PACKAGE', None, N).bytes)) if buf_ok else ERR(Adt(0, ['make_buffer failed'])),
                    'helper::crypt::convert_password_to_key': lambda it_, *a: list(cm.Term('KDF', None, 32).bytes),
                    'helper::crypt::build_encryption_info': lambda it_, *a: list(cm.Term('INFO', None, 8).bytes)}
        info = {'size': N, 'make_buffer_ok': buf_ok}
        total = 8 + 8 + ((N + 15) // 16) * 16
        try:
            r = it.call(self.fn, [Ref(Box_('BOOK')), sref(DEST), sref('pw')])
        except Panic as e:
            self.fail(ctx, res, 'no-panic', str(e), classes=[('encrypt-panics-on-io-error', True)], info=dict(info, log=[l[0] for l in it.fs.log][-6:])); return
        finally: it.stubs = {}
        ok = r.variant == 0
        dest = it.fs.files.get(DEST); tmp = it.fs.files.get(DEST + 'tmp')
        info.update(result='Ok' if ok else 'Err')
        if ok:
            self.oblige(ctx, res, 'Ok=>destination-complete', False if dest is None or dest[0] != 'new' else (dest[1] == total), info=info)
            self.oblige(ctx, res, 'Ok=>no-temp-file', tmp is None, info=info)
        else:
            self.oblige(ctx, res, 'Err=>destination-untouched', dest == OLD, info=info)
    def case_of(self, v):
        m = v['model']; c = {'fn': self.fn, 'size': self.sizes[m['size_class']], 'write_limit': m['fs_write_limit'], 'oblig': v['oblig']}; c['show'] = dict(c); return c
    def confirm(self, case, profile):
        r = native.run_fsize('xlsx_password_light' if 'light' in case['fn'] else 'xlsx_password', case['write_limit'], profile, model_size=max(case['size'], 1) * 2)
        bad = r['result'] not in ('Ok', 'Err') or (r['result'] == 'Ok' and not r['dest_complete']) or (r['result'] == 'Err' and not r['dest_is_old'])
        return bad, 'native password save with RLIMIT_FSIZE=%s: %s' % (r.get('rlimit_fsize'), r)

class SinkSave(Harness):
    property_id = 'C13'
    classes = {'csv-unwrap': 'writer::csv::write_writer unwraps the result of write_all: a failing sink panics instead of returning the error'}
    def __init__(self, tier, name, fn):
        self.name = 'sink.' + name; self.fn = fn; self.entry = [fn]
        self.sizes = [0, 1, 5, 12] if tier == 'quick' else [0, 1, 5, 12, 40]
        self.doc = '%s into a caller-supplied io::Write whose write() accepts everything, nothing (Ok(0)) or a part per call, or fails from a symbolic call index on: never a panic, Ok only if every byte was accepted' % fn
        self.bounds = {'package_sizes': self.sizes, 'sink_calls': 8, 'per_call': ['all', 'Ok(0)', 'half'], 'failure': 'from a symbolic call index on'}
    def setup(self, it): iomodel.install(it)
    def run(self, it, ctx, res):
        si = ctx.sym_int('size_class', 0, len(self.sizes) - 1)
        N = self.sizes[next(i for i in range(len(self.sizes)) if ctx.branch(si == i))]
        sink = iomodel.Sink(it, ctx)
        it.stubs = {'writer::xlsx::make_buffer': lambda it_, book, light: OK([7] * N)}
        info = {'size': N}
        try:
            r = it.call(self.fn + '::<&mut VerifSink>', [Ref(Box_('BOOK')), Ref(Box_(sink))])
        except Panic as e:
            self.fail(ctx, res, 'no-panic', str(e), info=dict(info, script=''.join(sink.script))); return
        finally: it.stubs = {}
        ok = r.variant == 0
        info.update(result='Ok' if ok else 'Err', taken=sink.taken, calls=sink.calls, script=''.join(sink.script))
        if ok: self.oblige(ctx, res, 'Ok=>all-bytes-accepted', sink.taken == N, info=info)
        else: self.oblige(ctx, res, 'Err=>sink-refused', sink.taken < N or N == 0, info=info)
    def case_of(self, v):
        c = {'fn': self.fn, 'script': v['info'].get('script', '') + 'E' * 8 if v['model'].get('sink_fail_at', 99) <= len(v['info'].get('script', '')) else v['info'].get('script', ''), 'oblig': v['oblig']}
        c['show'] = dict(c); return c
    def confirm(self, case, profile):
        kind = 'xlsx_light' if 'light' in case['fn'] else 'xlsx'
        r = native.run_cases([['sink_save', kind, case['script']]], profile)[0]
        return (r[0] != 'ok' or r[1][0] == 'bad'), 'native %s save into a sink scripted %r -> %r' % (kind, case['script'], r)

class CsvSink(Harness):
    name = 'sink.csv_write_writer'; property_id = 'C13'
    entry = ['writer::csv::write_writer']
    classes = SinkSave.classes
    doc = 'the real writer::csv::write_writer on a one-cell workbook into a failing sink: the error must come back as Err, not as a panic'
    bounds = {'workbook': 'one sheet, one text cell', 'sink': 'fails from a symbolic call index on'}
    def setup(self, it): iomodel.install(it)
    def run(self, it, ctx, res):
        sink = iomodel.Sink(it, ctx, max_calls=3)
        try:
            book = Box_(it.call('<structs::spreadsheet::Spreadsheet as std::default::Default>::default', []))
            ws = it.call('structs::spreadsheet::Spreadsheet::new_sheet::<&str>', [Ref(book), sref('S')])
            ws = ws.fields[0]
            cell = it.call('structs::worksheet::Worksheet::get_cell_mut::<(u32, u32)>', [ws, [1, 1]])
            it.call('structs::cell::Cell::set_value_string::<&str>', [cell, sref('x')])
            opt = Box_(it.call('<structs::csv_writer_option::CsvWriterOption as std::default::Default>::default', []))
            r = it.call('writer::csv::write_writer::<VerifSink>', [Ref(book), Ref(Box_(sink)), Ref(opt)])
        except Panic as e:
            self.fail(ctx, res, 'no-panic', str(e), classes=[('csv-unwrap', True)], info={'calls': sink.calls, 'script': ''.join(sink.script)}); return
        ok = r.variant == 0
        self.oblige(ctx, res, 'Ok=>all-bytes-accepted', (sink.taken == 3) if ok else True, info={'result': 'Ok' if ok else 'Err', 'taken': sink.taken, 'script': ''.join(sink.script)})
    def case_of(self, v):
        c = {'script': v['info'].get('script', ''), 'oblig': v['oblig']}; c['show'] = dict(c); return c
    def confirm(self, case, profile):
        r = native.run_cases([['sink_save', 'csv', case['script']]], profile)[0]
        return (r[0] != 'ok' or r[1][0] == 'bad'), 'native csv save into a sink scripted %r -> %r' % (case['script'], r)

def harnesses(tier):
    return [PathSave(tier, 'xlsx_write', 'writer::xlsx::write::<&str>'), PathSave(tier, 'xlsx_write_light', 'writer::xlsx::write_light::<&str>'),
            PathSave(tier, 'csv_write', 'writer::csv::write::<&str>', stub_writer='writer::csv::write_writer::<std::io::BufWriter<std::fs::File>>'),
            PasswordSave(tier, 'xlsx_write_with_password', 'writer::xlsx::write_with_password::<&str>'), PasswordSave(tier, 'xlsx_write_with_password_light', 'writer::xlsx::write_with_password_light::<&str>'),
            SinkSave(tier, 'xlsx_write_writer', 'writer::xlsx::write_writer'), SinkSave(tier, 'xlsx_write_writer_light', 'writer::xlsx::write_writer_light'), CsvSink()]

OPTIONS = {'want_smir': True, 'level': 'fault_enumeration'}
