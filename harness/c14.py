"""C14 — encrypted output decrypts to the exact package with the right password only (data flow modulo the primitives)."""
import z3
from engine.core import *
from engine.check import Harness, concrete
from engine import native, cryptomodel as cm
from harness.c17 import sref, iref
from harness.c15 import sym_password, password_of

CR = 'helper::crypt::'
BLK_HMAC_KEY = [0x5f, 0xb2, 0xad, 0x01, 0x0c, 0xb9, 0xe1, 0xf6]
BLK_HMAC_VALUE = [0xa0, 0x67, 0x7f, 0x02, 0xb2, 0x2c, 0x84, 0x33]
BLK_KEY = [0x14, 0x6e, 0x0b, 0xe7, 0xab, 0xac, 0xd0, 0xd6]
BLK_VER_IN = [0xfe, 0xa7, 0xd2, 0x76, 0x3b, 0x4b, 0x9e, 0x79]
BLK_VER_VAL = [0xd7, 0xaa, 0x0f, 0x6d, 0x30, 0x61, 0x34, 0x4e]

class Kdf(Harness):
    name = 'key_derivation'; property_id = 'C14'
    entry = [CR + 'convert_password_to_key', CR + 'hash']
    def __init__(self, tier):
        self.maxn = 3 if tier == 'quick' else 4
        self.spins = [0, 1, 3] if tier == 'quick' else [0, 1, 2, 3, 7]
        self.doc = 'convert_password_to_key with SHA-512 as a free function symbol equals the MS-OFFCRYPTO agile derivation H(H_n || blockKey)[..32], H_0 = H(salt || UTF16LE(pw)), H_i = H(LE32(i-1) || H_(i-1)), for every password of 0..%d symbolic code points' % self.maxn
        self.bounds = {'password_code_points': [0, self.maxn], 'alphabet': 'every Unicode scalar value', 'spin_counts': self.spins, 'key_bits': 256}
    def setup(self, it): cm.install(it)
    def run(self, it, ctx, res):
        it.world = cm.World()
        si = ctx.sym_int('spin_class', 0, len(self.spins) - 1); spin = self.spins[next(i for i in range(len(self.spins)) if ctx.branch(si == i))]
        cps = sym_password(ctx, self.maxn)
        salt = cm.Term('SALT', None, 16).bytes
        try:
            out = it.call(CR + 'convert_password_to_key', [sref(SStr(cps)), sref('SHA512'), Ref(Box_(list(salt))), iref(spin), iref(256), Ref(Box_(list(BLK_KEY)))])
        except Panic as e:
            self.fail(ctx, res, 'no-panic', str(e)); return
        exp = cm.agile_key(ctx, salt, cps, spin, BLK_KEY)
        self.oblige(ctx, res, 'key==agile KDF', cm.eq_chunks(ctx, cm.chunks(out), cm.chunks(exp)), info={'spin': spin, 'len': len(cps), 'got': cm.show(cm.chunks(out))[:300]})
    def case_of(self, v):
        m = v['model']; c = {'password': password_of(m), 'spin': self.spins[m['spin_class']]}; c['show'] = {'password': repr(c['password']), 'spin': c['spin']}; return c
    def confirm(self, case, profile):
        import hashlib
        salt = bytes(range(16)); pw = case['password']; spin = case['spin']
        r = native.run_cases([['password_key', pw, salt.hex(), spin]], profile)[0]
        h = hashlib.sha512(salt + pw.encode('utf-16-le')).digest()
        for i in range(spin): h = hashlib.sha512(i.to_bytes(4, 'little') + h).digest()
        h = hashlib.sha512(h + bytes(BLK_KEY)).digest()[:32]
        got = r[1][0] if r[0] == 'ok' else None
        return (r[0] != 'ok' or got != h.hex()), 'convert_password_to_key(%r, spin=%d) -> %s expected %s' % (pw, spin, (got or str(r))[:32], h.hex()[:32])

def aes(key, iv, data): return cm.mk('AES256CBC', list(key), list(iv), list(data), n=len(data))
class Flow(Harness):
    name = 'agile_data_flow'; property_id = 'C14'
    entry = [CR + 'encrypt', CR + 'crypt_package', CR + 'create_iv', CR + 'crypt', CR + 'hmac', CR + 'gen_random_16']
    def __init__(self, tier):
        self.sizes = [0, 1, 15, 16, 17, 33, 4095, 4096, 4097] if tier == 'quick' else [0, 1, 15, 16, 17, 31, 32, 33, 4095, 4096, 4097, 8191, 8192, 8193, 12289]
        self.doc = 'helper::crypt::encrypt executed on terms (SHA-512, HMAC, AES-256-CBC, random source as free symbols; password key derivation recorded): every value handed to the EncryptionInfo builder and both streams of the compound file equal the MS-OFFCRYPTO agile formulas; two consecutive saves share no random value'
        self.bounds = {'package_sizes': self.sizes, 'package_bytes': 'opaque (one atom)', 'saves': 2, 'password': '0..2 symbolic code points'}
    def setup(self, it): cm.install(it)
    def run(self, it, ctx, res):
        si = ctx.sym_int('size_class', 0, len(self.sizes) - 1); N = self.sizes[next(i for i in range(len(self.sizes)) if ctx.branch(si == i))]
        cps = sym_password(ctx, 2)
        info = {'size': N}
        saves = []
        for save in range(2):
            it.world = cm.World()
            kdf_calls, info_args = [], {}
            def kdf_stub(it_, pw, alg, salt, spin, bits, block_key):
                t = cm.Term('KDF', (cm.chunks(list(deref_all(pw).chars)), cm.chunks(list(deref_all(salt))), deref_all(spin), cm.chunks(list(deref_all(block_key)))), deref_all(bits) // 8)
                kdf_calls.append({'pw': list(deref_all(pw).chars), 'salt': list(deref_all(salt)), 'spin': deref_all(spin), 'bits': deref_all(bits), 'block_key': list(deref_all(block_key)), 'term': t})
                return list(t.bytes)
            names = ['package_salt_value', 'package_block_size', 'package_key_bits', 'package_hash_size', 'package_cipher_algorithm', 'package_cipher_chaining', 'package_hash_algorithm',
                     'encrypted_hmac_key', 'encrypted_hmac_value', 'key_spin_count', 'key_salt_value', 'key_block_size', 'key_key_bits', 'key_hash_size', 'key_cipher_algorithm', 'key_cipher_chaining',
                     'key_hash_algorithm', 'encrypted_verifier_hash_input', 'encrypted_verifier_hash_value', 'encrypted_key_value']
            def info_stub(it_, *args):
                for n_, a in zip(names, args):
                    v = deref_all(a); info_args[n_] = pstr(v) if isinstance(v, SStr) else (list(v) if isinstance(v, list) else v)
                return list(cm.Term('ENCRYPTION_INFO_XML', None, 8).bytes)
            it.stubs = {CR + 'convert_password_to_key': kdf_stub, CR + 'build_encryption_info': info_stub}
            pkg = cm.Term('PACKAGE', None, N).bytes
            try:
                it.call(CR + 'encrypt::<&str>', [Ref(Box_(sref('out.xlsx'))), Ref(Box_(list(pkg))), sref(SStr(cps))])
            except Panic as e:
                self.fail(ctx, res, 'no-panic', 'save %d: %s' % (save, e), info=info); return
            finally: it.stubs = {}
            saves.append((it.world, kdf_calls, info_args, pkg))
        W, kdf_calls, a, pkg = saves[0]
        E = lambda x, y: cm.eq_chunks(ctx, cm.chunks(x), cm.chunks(y))
        def ob(name, cond): self.oblige(ctx, res, name, cond if not isinstance(cond, bool) else cond, info=info)
        rnd = W.randoms
        if len(rnd) != 5 or [t.n for t in rnd] != [32, 16, 16, 64, 16] or len(W.cfb) != 1 or len(kdf_calls) != 3 or len(a) != 20:
            self.fail(ctx, res, 'shape', 'random draws %r, kdf calls %d, info args %d, files %d' % ([t.n for t in rnd], len(kdf_calls), len(a), len(W.cfb)), info=info); return
        pkg_key, pkg_salt, key_salt, hmac_key, ver_in = [t.bytes for t in rnd]
        iv = lambda blk: cm.H(pkg_salt, blk)[:16]
        # EncryptedPackage = LE64(N) || AES(pkgKey, IV_i, segment_i zero-padded to 16)
        exp_pkg = [(N >> (8 * k)) & 0xFF for k in range(8)]
        for i in range((N + 4095) // 4096):
            seg = list(pkg[4096 * i:4096 * (i + 1)]); seg += [0] * ((-len(seg)) % 16)
            exp_pkg += aes(pkg_key, iv(cm.LE32(i)), seg)
        stream = W.cfb[0].streams
        ob('EncryptedPackage==LE64(len)||segments', E(stream.get('EncryptedPackage', []), exp_pkg) if 'EncryptedPackage' in stream else False)
        ob('EncryptionInfo-stream-written', 'EncryptionInfo' in stream and len(stream['EncryptionInfo']) == 8)
        ob('saltValue/keyData', E(a['package_salt_value'], pkg_salt))
        ob('parameters', a['package_block_size'] == 16 and a['package_key_bits'] == 256 and a['package_hash_size'] == 64 and a['key_block_size'] == 16 and a['key_key_bits'] == 256 and a['key_hash_size'] == 64
           and a['package_cipher_algorithm'] == 'AES' and a['key_cipher_algorithm'] == 'AES' and a['package_cipher_chaining'] == 'ChainingModeCBC' and a['key_cipher_chaining'] == 'ChainingModeCBC'
           and a['package_hash_algorithm'] == 'SHA512' and a['key_hash_algorithm'] == 'SHA512')
        ob('encryptedHmacKey', E(a['encrypted_hmac_key'], aes(pkg_key, iv(BLK_HMAC_KEY), hmac_key)))
        hm = cm.mk('HMAC_SHA512', list(hmac_key), list(exp_pkg), n=64)
        ob('encryptedHmacValue-over-encrypted-stream', E(a['encrypted_hmac_value'], aes(pkg_key, iv(BLK_HMAC_VALUE), hm)))
        ob('spinCount', a['key_spin_count'] == 100000 and all(c['spin'] == 100000 for c in kdf_calls))
        ob('keyEncryptor-saltValue', E(a['key_salt_value'], key_salt))
        by_blk = {tuple(c['block_key']): c for c in kdf_calls}
        ok_kdf = set(by_blk) == {tuple(BLK_KEY), tuple(BLK_VER_IN), tuple(BLK_VER_VAL)} and all(c['bits'] == 256 and E(c['salt'], key_salt) is True and len(c['pw']) == len(cps) and all(x is y or (isinstance(x, int) and x == y) for x, y in zip(c['pw'], cps)) for c in kdf_calls)
        ob('key-derivations(password, keySalt, three block keys)', ok_kdf)
        if ok_kdf:
            ob('encryptedKeyValue', E(a['encrypted_key_value'], aes(by_blk[tuple(BLK_KEY)]['term'].bytes, key_salt, pkg_key)))
            ob('encryptedVerifierHashInput', E(a['encrypted_verifier_hash_input'], aes(by_blk[tuple(BLK_VER_IN)]['term'].bytes, key_salt, ver_in)))
            ob('encryptedVerifierHashValue', E(a['encrypted_verifier_hash_value'], aes(by_blk[tuple(BLK_VER_VAL)]['term'].bytes, key_salt, cm.H(ver_in))))
        # freshness across saves
        W2 = saves[1][0]
        used2 = set()
        def collect(ch):
            for c in ch:
                if c[0] == 'T':
                    t = c[1]
                    if t.fn == 'RANDOM': used2.add(t.id)
                    for x in (t.args or ()):
                        if isinstance(x, tuple): collect(x)
        for v in saves[1][2].values():
            if isinstance(v, list): collect(cm.chunks(v))
        for s_ in W2.cfb[0].streams.values() if W2.cfb else []: collect(cm.chunks(s_))
        ob('second-save-uses-only-fresh-random-values', not (used2 & {t.id for t in rnd}) and len(W2.randoms) == 5)
    def case_of(self, v):
        m = v['model']; c = {'size': self.sizes[m['size_class']], 'password': password_of(m), 'oblig': v['oblig']}; c['show'] = {'size': c['size'], 'password': repr(c['password']), 'oblig': c['oblig']}; return c
    def confirm(self, case, profile):
        # native confirmation: encrypt a package of that size and decrypt it with /verif's own agile decryptor (python)
        from engine import offcrypto
        return offcrypto.confirm(case['size'], case['password'], profile)

def harnesses(tier):
    return [Kdf(tier), Flow(tier)]
OPTIONS = {'level': 'other'}
