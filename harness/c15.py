"""C15 — protection password hashes verify per ECMA-376; no clear-text password stays in the model."""
import z3
from engine.core import *
from engine.check import Harness, concrete
from engine import native, cryptomodel as cm
from harness.c17 import sref, iref

CR = 'helper::crypt::'
def sym_password(ctx, maxn, tag='p'):
    n = ctx.sym_int(tag + 'len', 0, maxn); n = next(k for k in range(maxn + 1) if ctx.branch(n == k))
    cs = [ctx.sym_int('%s%d' % (tag, i), 1, 0x10FFFF) for i in range(n)]
    for c in cs: ctx.define(z3.Not(z3.And(c >= 0xD800, c <= 0xDFFF)))
    return cs
def password_of(m, tag='p'): return ''.join(chr(m['%s%d' % (tag, i)]) for i in range(m[tag + 'len']))

class HashChain(Harness):
    name = 'hash_chain'; property_id = 'C15'
    entry = [CR + 'convert_password_to_hash', CR + 'hash']
    def __init__(self, tier):
        self.maxn = 3 if tier == 'quick' else 4
        self.spins = [0, 1, 3] if tier == 'quick' else [0, 1, 2, 3, 7]
        self.doc = 'convert_password_to_hash with SHA-512 as a free function symbol: the result is exactly H(...H(H(salt || UTF16LE(pw)) || LE32(0))... || LE32(n-1)) for every password of 0..%d symbolic code points (BMP and non-BMP)' % self.maxn
        self.bounds = {'password_code_points': [0, self.maxn], 'alphabet': 'every Unicode scalar value (surrogate pairs symbolic)', 'spin_counts': self.spins, 'salt': '16 fresh random bytes (atom)'}
    def setup(self, it): cm.install(it)
    def run(self, it, ctx, res):
        it.world = cm.World()
        si = ctx.sym_int('spin_class', 0, len(self.spins) - 1); spin = self.spins[next(i for i in range(len(self.spins)) if ctx.branch(si == i))]
        cps = sym_password(ctx, self.maxn)
        salt = cm.Term('SALT', None, 16).bytes
        try:
            out = it.call(CR + 'convert_password_to_hash', [sref(SStr(cps)), sref('SHA-512'), Ref(Box_(list(salt))), iref(spin)])
        except Panic as e:
            self.fail(ctx, res, 'no-panic', str(e)); return
        exp = cm.ecma_password_hash(ctx, salt, cps, spin)
        self.oblige(ctx, res, 'hash==ECMA-376 chain', cm.eq_chunks(ctx, cm.chunks(out), cm.chunks(exp)), info={'spin': spin, 'len': len(cps), 'got': cm.show(cm.chunks(out))[:300]})
    def case_of(self, v):
        m = v['model']; c = {'password': password_of(m), 'spin': self.spins[m['spin_class']]}; c['show'] = {'password': repr(c['password']), 'spin': c['spin']}; return c
    def confirm(self, case, profile):
        import hashlib, base64
        salt = bytes(range(16)); pw = case['password']; spin = case['spin']
        r = native.run_cases([['password_hash', pw, salt.hex(), spin]], profile)[0]
        h = hashlib.sha512(salt + pw.encode('utf-16-le')).digest()
        for i in range(spin): h = hashlib.sha512(h + i.to_bytes(4, 'little')).digest()
        got = r[1][0] if r[0] == 'ok' else None
        return (r[0] != 'ok' or got != h.hex()), 'convert_password_to_hash(%r, spin=%d) -> %s expected %s' % (pw, spin, (got or str(r))[:32], h.hex()[:32])

KINDS = {
    'sheet': ('structs::sheet_protection::SheetProtection', 'set_password', 'password', ['algorithm_name', 'salt_value', 'spin_count', 'hash_value']),
    'workbook': ('structs::workbook_protection::WorkbookProtection', 'set_workbook_password', 'workbook_password', ['workbook_algorithm_name', 'workbook_salt_value', 'workbook_spin_count', 'workbook_hash_value']),
    'revisions': ('structs::workbook_protection::WorkbookProtection', 'set_revisions_password', 'revisions_password', ['revisions_algorithm_name', 'revisions_salt_value', 'revisions_spin_count', 'revisions_hash_value']),
}
class Protect(Harness):
    name = 'protection_attributes'; property_id = 'C15'
    entry = [CR + 'encrypt_sheet_protection', CR + 'encrypt_workbook_protection', CR + 'encrypt_revisions_protection']
    doc = 'SheetProtection::set_password / WorkbookProtection::set_workbook_password / set_revisions_password with the hash chain as a recorded call: algorithm SHA-512, stored spin count == iterated spin count == 100000, salt = base64(fresh random), hash = base64(chain result for this password and salt), the legacy password attribute of this kind removed, the other kinds untouched, fresh salt per call'
    bounds = {'kinds': list(KINDS), 'password': '1..2 symbolic code points', 'pre_state': 'legacy 16-bit password attributes present for every kind', 'calls': 2}
    def setup(self, it): cm.install(it)
    def run(self, it, ctx, res):
        it.world = cm.World()
        ki = ctx.sym_int('kind', 0, 2); kind = list(KINDS)[next(i for i in range(3) if ctx.branch(ki == i))]
        ty, setter, rawname, attrs = KINDS[kind]
        cps = sym_password(ctx, 2);
        calls = []
        def chain_stub(it_, pw, alg, salt, spin):
            t = cm.Term('CHAIN', (cm.chunks([c for c in deref_all(pw).chars]), cm.chunks(list(deref_all(salt)))), 64)
            calls.append({'pw': list(deref_all(pw).chars), 'alg': pstr(alg), 'salt': list(deref_all(salt)), 'spin': deref_all(spin), 'term': t})
            return list(t.bytes)
        it.stubs = {CR + 'convert_password_to_hash': chain_stub}
        info = {'kind': kind}
        try:
            obj = Box_(it.call('<%s as std::default::Default>::default' % ty, []))
            if kind == 'sheet': it.call(ty + '::set_password_raw::<&str>', [Ref(obj), sref('CAFE')])
            else:
                it.call(ty + '::set_workbook_password_raw::<&str>', [Ref(obj), sref('CAFE')])
                it.call(ty + '::set_revisions_password_raw::<&str>', [Ref(obj), sref('BEEF')])
            it.call(ty + '::' + setter, [Ref(obj), sref(SStr(cps))])
            get = lambda name: deref_all(it.call(ty + '::get_' + name, [Ref(obj)]))
            alg, saltv, spin, hashv = [get(a) for a in attrs]
            raw = get(rawname + '_raw')
            other_raw = get(('revisions_password' if kind == 'workbook' else 'workbook_password') + '_raw') if kind != 'sheet' else None
            first_salt = calls[0]['salt'] if calls else None
            it.call(ty + '::' + setter, [Ref(obj), sref(SStr(cps))])
        except Panic as e:
            self.fail(ctx, res, 'no-panic', str(e), info=info); return
        finally: it.stubs = {}
        ok = len(calls) == 2
        c0 = calls[0] if calls else None
        conds = {
            'one-chain-call-per-set': ok,
            'algorithm-name': ok and pstr(alg) == 'SHA-512' and c0['alg'] in ('SHA-512', 'SHA512'),
            'spin-count-stored==iterated==100000': ok and spin == 100000 and c0['spin'] == 100000,
            'chain-gets-the-password': ok and (len(c0['pw']) == len(cps) and all(a is b or (isinstance(a, int) and isinstance(b, int) and a == b) for a, b in zip(c0['pw'], cps))),
            'salt-is-fresh-random-16': ok and len(c0['salt']) == 16 and all(isinstance(b, cm.TermByte) and b.term.fn == 'RANDOM' for b in c0['salt']) and len({id(b.term) for b in c0['salt']}) == 1,
            'stored-salt==base64(salt)': ok and len(saltv.chars) == 1 and isinstance(saltv.chars[0], cm.B64Text) and cm.eq_chunks(ctx, saltv.chars[0].ch, cm.chunks(c0['salt'])) is True,
            'stored-hash==base64(chain)': ok and len(hashv.chars) == 1 and isinstance(hashv.chars[0], cm.B64Text) and cm.eq_chunks(ctx, hashv.chars[0].ch, cm.chunks(c0['term'].bytes)) is True,
            'legacy-password-removed': ok and len(raw.chars) == 0,
            'other-kind-untouched': ok and (other_raw is None or pstr(other_raw) == ('BEEF' if kind == 'workbook' else 'CAFE')),
            'salt-fresh-on-every-call': ok and calls[1]['salt'][0].term is not calls[0]['salt'][0].term,
        }
        for k, v in conds.items():
            self.oblige(ctx, res, k, bool(v), info=info)
    def case_of(self, v):
        m = v['model']; c = {'kind': list(KINDS)[m['kind']], 'password': password_of(m), 'oblig': v['oblig']}; c['show'] = {'kind': c['kind'], 'password': repr(c['password']), 'oblig': c['oblig']}; return c
    def confirm(self, case, profile):
        import hashlib, base64
        r = native.run_cases([['protect', case['kind'], case['password']]], profile)[0]
        if r[0] != 'ok': return True, 'set password (%s) -> %r' % (case['kind'], r)
        alg, salt, spin, hv, raw, other, salt2 = [native.unhx(x) for x in r[1]]
        h = hashlib.sha512(base64.b64decode(salt) + case['password'].encode('utf-16-le')).digest()
        for i in range(int(spin or 0)): h = hashlib.sha512(h + i.to_bytes(4, 'little')).digest()
        bad = alg != 'SHA-512' or spin != '100000' or base64.b64encode(h).decode() != hv or raw != '' or other not in ('', 'BEEF', 'CAFE') or (other == '' and case['kind'] != 'sheet') or salt == salt2 or len(base64.b64decode(salt)) != 16
        return bad, '%s protection of %r: algorithm=%s spin=%s hash_ok=%s raw=%r other_raw=%r salts_differ=%s' % (case['kind'], case['password'], alg, spin, base64.b64encode(h).decode() == hv, raw, other, salt != salt2)

def harnesses(tier):
    return [HashChain(tier), Protect()]
OPTIONS = {'level': 'other'}
