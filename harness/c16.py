"""C16 (kernel) — concurrent savers that share one shared-string table: for every interleaving of their table operations
(one registration per text cell, then the dump of the table) each saver's cells refer to their own strings in its own dump.
The schedule is a symbolic variable; every step runs the real code."""
import re
import z3
from engine.core import *
from engine.check import Harness, concrete
from engine import native, xmlmodel, containers
from harness.c17 import sref, iref, chars_eq
from harness.c12 import install_writer_stubs, Parts, strings_of_part, cell_refs

CELL = 'structs::cell::Cell::'
WMN = 'structs::writer_manager::WriterManager::<std::io::Cursor<std::vec::Vec<u8>>>::'
class Saver:
    def __init__(self, cells, texts): self.cells, self.texts, self.next, self.rec, self.dump, self.sty = cells, texts, 0, xmlmodel.Recorder(), None, None

class Interleaving(Harness):
    name = 'savers.interleaving'; property_id = 'C16'
    entry = [CELL + 'write_to', 'structs::shared_string_table::SharedStringTable::set_cell', 'writer::xlsx::shared_strings::write', 'structs::shared_string_table::SharedStringTable::write_to']
    classes = {}
    def __init__(self, tier):
        self.shape = [2, 2] if tier == 'quick' else [2, 2, 1]
        self.maxn = 1          # one character out of {a, b} per cell already gives equal / overlapping / disjoint string sets
        self.doc = '%d savers over one shared-string table (a workbook with unloaded sheets saved through shared references, or its clones), saver i registering %s text cells of symbolic content through the real Cell::write_to and then dumping the table through the real writer::xlsx::shared_strings::write; the order in which the savers take their steps is chosen by the solver (every interleaving): no step panics, and in the dump a saver takes every one of its cells refers to the index of its own text' % (len(self.shape), self.shape)
        self.bounds = {'savers': len(self.shape), 'cells_per_saver': self.shape, 'text_chars': [1, self.maxn], 'alphabet': 'a-b (equal, overlapping and disjoint string sets all occur)', 'preloaded_strings': [0, 1],
                       'granularity': 'a scheduling point before every cell registration and before every dump; inside a step the table is touched only under its lock (the harness counts the lock acquisitions of each step and refuses to conclude if a registration takes the lock more than once)',
                       'threads': 'not executed: the interleaving is a symbolic schedule of atomic steps; data races inside a step, lock poisoning and OS scheduling are outside the claim'}
    def setup(self, it):
        from engine import cryptomodel as cm
        xmlmodel.install(it); xmlmodel.install_events(it); cm.install(it); cm.install_digests(it)
    def run(self, it, ctx, res):
        from engine import cryptomodel as cm
        it.world = cm.World()
        savers = []
        pre = ctx.branch(ctx.sym_bool('preloaded'))
        try:
            table = Box_(it.call('<structs::shared_string_table::SharedStringTable as std::default::Default>::default', []))
            if pre:
                c0 = Box_(it.call('<structs::cell::Cell as std::default::Default>::default', []))
                it.call(CELL + 'set_value_string::<&str>', [Ref(c0), sref('p')])
                it.call('structs::shared_string_table::SharedStringTable::set_cell', [Ref(table), it.call(CELL + 'get_cell_value', [Ref(c0)])])
            for s, ncell in enumerate(self.shape):
                cells, texts = [], []
                for i in range(ncell):
                    n = ctx.sym_int('len_%d_%d' % (s, i), 1, self.maxn); n = next(k for k in range(1, self.maxn + 1) if ctx.branch(n == k))
                    cs = [ctx.sym_int('t_%d_%d_%d' % (s, i, k), 97, 98) for k in range(n)]
                    c = Box_(it.call('<structs::cell::Cell as std::default::Default>::default', []))
                    co = it.call(CELL + 'get_coordinate_mut', [Ref(c)])
                    it.call('structs::coordinate::Coordinate::set_col_num', [co, i + 1]); it.call('structs::coordinate::Coordinate::set_row_num', [co, 1])
                    it.call(CELL + 'set_value_string::<&str>', [Ref(c), sref(SStr(cs))])
                    cells.append(c); texts.append(cs)
                sv = Saver(cells, texts); sv.sty = Box_(it.call('<structs::stylesheet::Stylesheet as std::default::Default>::default', []))
                savers.append(sv)
        except Panic as e:
            self.fail(ctx, res, 'no-panic', 'setup: ' + str(e)); return
        locks = {'n': 0}
        def lock(it_, callee, l): locks['n'] += 1; return OK(l)
        sched = []; step = 0
        it.stubs = {'structs::stylesheet::Stylesheet::set_style': lambda it_, st, style: 0}
        try:
            while True:
                ready = [i for i, sv in enumerate(savers) if sv.next <= len(sv.cells)]
                if not ready: break
                pick = ready[-1]
                for i in ready[:-1]:
                    if ctx.branch(ctx.sym_bool('step%d_saver%d' % (step, i))): pick = i; break
                sv = savers[pick]; sched.append(pick); step += 1
                parts = Parts(); install_writer_stubs(it, parts)
                it.stub_patterns = [(re.compile(r'std::sync::RwLock::<.*>::(read|write)'), lock)] + it.stub_patterns
                locks['n'] = 0
                if sv.next < len(sv.cells):
                    it.call(CELL + 'write_to', [Ref(sv.cells[sv.next]), Ref(Box_(sv.rec)), Ref(table), Ref(sv.sty), Ref(Box_(containers.HMap()))])
                    if locks['n'] > 1: raise Unsupported('a cell registration takes the table lock %d times: the step is not atomic, the schedule model does not apply' % locks['n'])
                else:
                    wm = Box_(it.call(WMN + 'new', [Ref(Box_('ZIP'))]))
                    r = it.call('writer::xlsx::shared_strings::write::<std::io::Cursor<std::vec::Vec<u8>>>', [Ref(table), Ref(wm)])
                    if r.variant != 0: raise Panic('shared_strings::write returned Err')
                    sst = [rec for path, rec in parts.parts if ''.join(chr(c) for c in path) == 'xl/sharedStrings.xml']
                    sv.dump = strings_of_part(it, sst[0]) if sst else []
                sv.next += 1
                it.stub_patterns = []
        except Panic as e:
            self.fail(ctx, res, 'no-panic', str(e), info={'schedule': sched}); return
        finally:
            it.stub_patterns = []; it.stubs = {}
        info = {'schedule': sched, 'preloaded': pre}
        for s, sv in enumerate(savers):
            refs = cell_refs(it, sv.rec)
            self.oblige(ctx, res, 'every-text-cell-written-as-shared-string', len(refs) == len(sv.cells), info=dict(info, saver=s, refs=len(refs)))
            for (ref, idx), own in zip(refs, sv.texts):
                good = 0 <= idx < len(sv.dump) and len(sv.dump[idx]) == len(own)
                self.oblige(ctx, res, 'cell-shows-its-own-string-in-its-saver-dump', chars_eq(sv.dump[idx], own) if good else False, info=dict(info, saver=s, cell=ref, index=idx, dump=len(sv.dump)))
    def case_of(self, v):
        m = v['model']
        texts = [[''.join(chr(m.get('t_%d_%d_%d' % (s, i, k), 97)) for k in range(m.get('len_%d_%d' % (s, i), 1))) for i in range(n)] for s, n in enumerate(self.shape)]
        c = {'texts': texts, 'schedule': v['info'].get('schedule'), 'preloaded': bool(m.get('preloaded')), 'oblig': v['oblig']}; c['show'] = dict(c); return c
    def confirm(self, case, profile):
        spec = ';'.join(','.join(ts) for ts in case['texts'])
        r = native.run_cases([['saver_schedule', spec, ','.join(str(s) for s in case['schedule']), 'p' if case.get('preloaded') else '']], profile, timeout_each=60)[0]
        if r[0] != 'ok': return True, 'savers %r schedule %r -> %r' % (case['texts'], case['schedule'], r)
        rows = [native.unhx(x) for x in r[1]]
        bad = [row for row in rows if not row.endswith('ok')]
        return bool(bad), 'savers with cell texts %r stepping in the order %r: per saver "texts -> what its cells show in its own dump": %r' % (case['texts'], case['schedule'], rows)

import threading
class Baton:
    """strictly alternating execution of saver threads: a saver runs until its next lock acquisition (or its end), then the
    scheduler (main thread) decides who continues.  Only one thread ever runs; the interpreter and z3 are never used concurrently."""
    def __init__(self, n):
        self.go = [threading.Semaphore(0) for _ in range(n)]; self.back = threading.Semaphore(0)
        self.state = ['new'] * n; self.error = [None] * n; self.current = None; self.result = [None] * n; self.abort = False
    def pause(self, i):
        """called by saver i at a scheduling point"""
        self.state[i] = 'waiting'; self.back.release(); self.go[i].acquire()
        if self.abort: raise SystemExit
        self.state[i] = 'running'
    def resume(self, i):
        self.current = i; self.go[i].release(); self.back.acquire()
class AbortSaver(BaseException): pass

BOOK = 'structs::spreadsheet::Spreadsheet::'
from harness.c07 import WS
class SaveInterleaving(Harness):
    """whole saves: every saver runs the real make_buffer on a clone of one workbook whose table is shared (one sheet is still
    unloaded); a scheduling point sits at EVERY acquisition of the table's lock, whatever code takes it"""
    name = 'saves.lock_interleaving'; property_id = 'C16'
    entry = ['writer::xlsx::make_buffer', 'writer::xlsx::worksheet::write', CELL + 'write_to', 'structs::shared_string_table::SharedStringTable::set_cell', 'writer::xlsx::shared_strings::write']
    classes = {}
    def __init__(self, tier):
        self.ncell = 2
        self.nsaver = 2
        self.maxn = 1 if tier == 'quick' else 2
        self.doc = '%d savers, each running the real writer::xlsx::make_buffer (part writers other than the sheet part and the shared-strings part stubbed) on its own clone of a workbook that has one unloaded sheet — so all clones share the workbook\'s shared-string table — and %d text cells of symbolic content per saver; a scheduling point at every acquisition of the table lock (read or write) and the choice of the next saver a solver variable: every save completes, and in the file a saver produces every text cell refers to the index of its own string' % (self.nsaver, self.ncell)
        self.bounds = {'savers': self.nsaver, 'text_cells_per_saver': self.ncell, 'text_chars': [1, self.maxn], 'alphabet': 'a-b', 'scheduling_points': 'every RwLock::read / RwLock::write on the shared table, from the entry of make_buffer to its return', 'lock_model': 'a saver keeps running from one acquisition to its next one (the guard is released before the next acquisition in all code seen; a nested acquisition would be reported as unsupported)',
                       'threads': 'not executed: each saver is a coroutine over the same interpreter; memory-model effects, lock poisoning and OS scheduling are outside the claim'}
    def setup(self, it):
        from engine import cryptomodel as cm
        xmlmodel.install(it); xmlmodel.install_events(it); cm.install(it); cm.install_digests(it)
    def run(self, it, ctx, res):
        from engine import cryptomodel as cm
        it.world = cm.World()
        texts = []
        try:
            book = Box_(it.call('<structs::spreadsheet::Spreadsheet as std::default::Default>::default', []))
            it.call(BOOK + 'new_sheet::<&str>', [Ref(book), sref('S')])
            raw = it.call(BOOK + 'new_sheet::<&str>', [Ref(book), sref('RAW')]).fields[0]
            it.call(WS + 'set_raw_data_of_worksheet', [raw, it.call('<structs::raw::raw_worksheet::RawWorksheet as std::default::Default>::default', [])])
            books = []
            for s in range(self.nsaver):
                b = Box_(it.call('<structs::spreadsheet::Spreadsheet as std::clone::Clone>::clone', [Ref(book)]))
                ws = it.call(BOOK + 'get_sheet_mut', [Ref(b), iref(0)]).fields[0]
                ts = []
                for i in range(self.ncell):
                    n = ctx.sym_int('len_%d_%d' % (s, i), 1, self.maxn); n = next(k for k in range(1, self.maxn + 1) if ctx.branch(n == k))
                    cs = [ctx.sym_int('t_%d_%d_%d' % (s, i, k), 97, 98) for k in range(n)]
                    cell = it.call(WS + 'get_cell_mut::<(u32, u32)>', [ws, [i + 1, 1]])
                    it.call(CELL + 'set_value_string::<&str>', [cell, sref(SStr(cs))]); ts.append(cs)
                books.append(b); texts.append(ts)
        except Panic as e:
            self.fail(ctx, res, 'no-panic', 'setup: ' + str(e)); return
        n = self.nsaver
        bat = Baton(n); parts = [Parts() for _ in range(n)]
        install_writer_stubs(it, parts[0])
        pats = [(p, f) for p, f in it.stub_patterns if 'make_file_from_writer' not in p.pattern]
        def mk_file(it_, callee, path, arv, writer, d, light):
            parts[bat.current].parts.append((list(deref_all(path).chars), deref_all(writer))); return OK([])
        def lock(it_, callee, l):
            bat.pause(bat.current); return OK(l)
        pats = [(re.compile(r'std::sync::RwLock::<.*>::(read|write)'), lock), (re.compile(r'writer::driver::make_file_from_writer::<.*>'), mk_file),
                (re.compile(r'structs::raw::raw_worksheet::RawWorksheet::write::<.*>'), lambda it_, callee, *a: OK([]))] + pats
        it.stub_patterns = pats
        it.stubs = {'structs::stylesheet::Stylesheet::set_style': lambda it_, st, style: 0}
        def body(i):
            bat.go[i].acquire()
            try:
                if bat.abort: return
                bat.state[i] = 'running'
                bat.result[i] = it.call('writer::xlsx::make_buffer', [Ref(books[i]), False])
            except SystemExit: return
            except BaseException as e: bat.error[i] = e
            finally:
                bat.state[i] = 'done'; bat.back.release()
        ths = [threading.Thread(target=body, args=(i,), daemon=True) for i in range(n)]
        for t in ths: t.start()
        sched = []; step = 0; err = None
        try:
            while True:
                ready = [i for i in range(n) if bat.state[i] != 'done']
                if not ready: break
                pick = ready[-1]
                for i in ready[:-1]:
                    if ctx.branch(ctx.sym_bool('step%d_saver%d' % (step, i))): pick = i; break
                sched.append(pick); step += 1
                bat.resume(pick)
                if bat.error[pick] is not None: err = bat.error[pick]; break
                if step > 200: raise Unsupported('more than 200 scheduling points')
        finally:
            bat.abort = True
            for i in range(n):
                if bat.state[i] != 'done': bat.go[i].release()
            for t in ths: t.join(timeout=5)
            it.stub_patterns = []; it.stubs = {}
        info = {'schedule': sched}
        if err is not None:
            if isinstance(err, Panic): self.fail(ctx, res, 'no-panic', str(err), info=info); return
            raise err
        for s in range(n):
            r = bat.result[s]
            if r is None or r.variant != 0: self.fail(ctx, res, 'save-completes', 'make_buffer returned Err', info=dict(info, saver=s)); return
            sst = [rec for path, rec in parts[s].parts if ''.join(chr(c) for c in path) == 'xl/sharedStrings.xml']
            dump = strings_of_part(it, sst[0]) if sst else []
            sheets = [rec for path, rec in parts[s].parts if ''.join(chr(c) for c in path).startswith('xl/worksheets/sheet')]
            refs = [x for rec in sheets for x in cell_refs(it, rec)]
            self.oblige(ctx, res, 'every-text-cell-written-as-shared-string', len(refs) == self.ncell, info=dict(info, saver=s, refs=len(refs)))
            for (ref, idx), own in zip(refs, texts[s]):
                good = 0 <= idx < len(dump) and len(dump[idx]) == len(own)
                self.oblige(ctx, res, 'cell-shows-its-own-string-in-its-saver-file', chars_eq(dump[idx], own) if good else False, info=dict(info, saver=s, cell=ref, index=idx, dump=len(dump)))
    def case_of(self, v):
        m = v['model']
        texts = [[''.join(chr(m.get('t_%d_%d_%d' % (s, i, k), 97)) for k in range(m.get('len_%d_%d' % (s, i), 1))) for i in range(self.ncell)] for s in range(self.nsaver)]
        c = {'texts': texts, 'schedule': v['info'].get('schedule'), 'oblig': v['oblig']}; c['show'] = dict(c); return c
    def confirm(self, case, profile):
        # real threads: the schedule itself cannot be forced on the native build, so the savers are raced (barrier start, many rounds,
        # many strings per saver built from the counterexample's texts) until a cell shows a foreign string or the budget is used up
        spec = ';'.join(','.join(ts) for ts in case['texts'])
        r = native.run_cases([['saver_race', spec, 12]], profile, timeout_each=180)[0]
        if r[0] != 'ok': return True, 'racing savers %r -> %r' % (case['texts'], r)
        rows = [native.unhx(x) for x in r[1]]
        return rows[0] != 'all cells show their own strings', 'savers (texts %r, schedule found by the solver %r) raced on real threads: %s' % (case['texts'], case['schedule'], rows)

def harnesses(tier):
    return [Interleaving(tier), SaveInterleaving(tier)]
OPTIONS = {'want_smir': True}
