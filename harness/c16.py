"""C16 (kernel) — concurrent savers that share one shared-string table: for every interleaving of their table operations
(one registration per text cell, then the dump of the table) each saver's cells refer to their own strings in its own dump.
The schedule is a symbolic variable; every step runs the real code."""
import re
import z3
from engine.core import *
from engine.check import Harness, concrete
from engine import native, xmlmodel, containers
from harness.c17 import sref, iref, chars_eq
from harness.c12 import install_writer_stubs, Parts, strings_of_part, cell_refs

CELL = 'structs::cell::Cell::'
WMN = 'structs::writer_manager::WriterManager::<std::io::Cursor<std::vec::Vec<u8>>>::'
class Saver:
    def __init__(self, cells, texts): self.cells, self.texts, self.next, self.rec, self.dump, self.sty = cells, texts, 0, xmlmodel.Recorder(), None, None

class Interleaving(Harness):
    name = 'savers.interleaving'; property_id = 'C16'
    entry = [CELL + 'write_to', 'structs::shared_string_table::SharedStringTable::set_cell', 'writer::xlsx::shared_strings::write', 'structs::shared_string_table::SharedStringTable::write_to']
    classes = {}
    def __init__(self, tier):
        self.shape = [2, 2] if tier == 'quick' else [2, 2, 1]
        self.maxn = 1 if tier == 'quick' else 2
        self.doc = '%d savers over one shared-string table (a workbook with unloaded sheets saved through shared references, or its clones), saver i registering %s text cells of symbolic content through the real Cell::write_to and then dumping the table through the real writer::xlsx::shared_strings::write; the order in which the savers take their steps is chosen by the solver (every interleaving): no step panics, and in the dump a saver takes every one of its cells refers to the index of its own text' % (len(self.shape), self.shape)
        self.bounds = {'savers': len(self.shape), 'cells_per_saver': self.shape, 'text_chars': [1, self.maxn], 'alphabet': 'a-b (equal, overlapping and disjoint string sets all occur)', 'preloaded_strings': [0, 1],
                       'granularity': 'a scheduling point before every cell registration and before every dump; inside a step the table is touched only under its lock (the harness counts the lock acquisitions of each step and refuses to conclude if a registration takes the lock more than once)',
                       'threads': 'not executed: the interleaving is a symbolic schedule of atomic steps; data races inside a step, lock poisoning and OS scheduling are outside the claim'}
    def setup(self, it):
        from engine import cryptomodel as cm
        xmlmodel.install(it); xmlmodel.install_events(it); cm.install(it); cm.install_digests(it)
    def run(self, it, ctx, res):
        from engine import cryptomodel as cm
        it.world = cm.World()
        savers = []
        pre = ctx.branch(ctx.sym_bool('preloaded'))
        try:
            table = Box_(it.call('<structs::shared_string_table::SharedStringTable as std::default::Default>::default', []))
            if pre:
                c0 = Box_(it.call('<structs::cell::Cell as std::default::Default>::default', []))
                it.call(CELL + 'set_value_string::<&str>', [Ref(c0), sref('p')])
                it.call('structs::shared_string_table::SharedStringTable::set_cell', [Ref(table), it.call(CELL + 'get_cell_value', [Ref(c0)])])
            for s, ncell in enumerate(self.shape):
                cells, texts = [], []
                for i in range(ncell):
                    n = ctx.sym_int('len_%d_%d' % (s, i), 1, self.maxn); n = next(k for k in range(1, self.maxn + 1) if ctx.branch(n == k))
                    cs = [ctx.sym_int('t_%d_%d_%d' % (s, i, k), 97, 98) for k in range(n)]
                    c = Box_(it.call('<structs::cell::Cell as std::default::Default>::default', []))
                    co = it.call(CELL + 'get_coordinate_mut', [Ref(c)])
                    it.call('structs::coordinate::Coordinate::set_col_num', [co, i + 1]); it.call('structs::coordinate::Coordinate::set_row_num', [co, 1])
                    it.call(CELL + 'set_value_string::<&str>', [Ref(c), sref(SStr(cs))])
                    cells.append(c); texts.append(cs)
                sv = Saver(cells, texts); sv.sty = Box_(it.call('<structs::stylesheet::Stylesheet as std::default::Default>::default', []))
                savers.append(sv)
        except Panic as e:
            self.fail(ctx, res, 'no-panic', 'setup: ' + str(e)); return
        locks = {'n': 0}
        def lock(it_, callee, l): locks['n'] += 1; return OK(l)
        sched = []; step = 0
        it.stubs = {'structs::stylesheet::Stylesheet::set_style': lambda it_, st, style: 0}
        try:
            while True:
                ready = [i for i, sv in enumerate(savers) if sv.next <= len(sv.cells)]
                if not ready: break
                pick = ready[-1]
                for i in ready[:-1]:
                    if ctx.branch(ctx.sym_bool('step%d_saver%d' % (step, i))): pick = i; break
                sv = savers[pick]; sched.append(pick); step += 1
                parts = Parts(); install_writer_stubs(it, parts)
                it.stub_patterns = [(re.compile(r'std::sync::RwLock::<.*>::(read|write)'), lock)] + it.stub_patterns
                locks['n'] = 0
                if sv.next < len(sv.cells):
                    it.call(CELL + 'write_to', [Ref(sv.cells[sv.next]), Ref(Box_(sv.rec)), Ref(table), Ref(sv.sty), Ref(Box_(containers.HMap()))])
                    if locks['n'] > 1: raise Unsupported('a cell registration takes the table lock %d times: the step is not atomic, the schedule model does not apply' % locks['n'])
                else:
                    wm = Box_(it.call(WMN + 'new', [Ref(Box_('ZIP'))]))
                    r = it.call('writer::xlsx::shared_strings::write::<std::io::Cursor<std::vec::Vec<u8>>>', [Ref(table), Ref(wm)])
                    if r.variant != 0: raise Panic('shared_strings::write returned Err')
                    sst = [rec for path, rec in parts.parts if ''.join(chr(c) for c in path) == 'xl/sharedStrings.xml']
                    sv.dump = strings_of_part(it, sst[0]) if sst else []
                sv.next += 1
                it.stub_patterns = []
        except Panic as e:
            self.fail(ctx, res, 'no-panic', str(e), info={'schedule': sched}); return
        finally:
            it.stub_patterns = []; it.stubs = {}
        info = {'schedule': sched, 'preloaded': pre}
        for s, sv in enumerate(savers):
            refs = cell_refs(it, sv.rec)
            self.oblige(ctx, res, 'every-text-cell-written-as-shared-string', len(refs) == len(sv.cells), info=dict(info, saver=s, refs=len(refs)))
            for (ref, idx), own in zip(refs, sv.texts):
                good = 0 <= idx < len(sv.dump) and len(sv.dump[idx]) == len(own)
                self.oblige(ctx, res, 'cell-shows-its-own-string-in-its-saver-dump', chars_eq(sv.dump[idx], own) if good else False, info=dict(info, saver=s, cell=ref, index=idx, dump=len(sv.dump)))
    def case_of(self, v):
        m = v['model']
        texts = [[''.join(chr(m.get('t_%d_%d_%d' % (s, i, k), 97)) for k in range(m.get('len_%d_%d' % (s, i), 1))) for i in range(n)] for s, n in enumerate(self.shape)]
        c = {'texts': texts, 'schedule': v['info'].get('schedule'), 'preloaded': bool(m.get('preloaded')), 'oblig': v['oblig']}; c['show'] = dict(c); return c
    def confirm(self, case, profile):
        spec = ';'.join(','.join(ts) for ts in case['texts'])
        r = native.run_cases([['saver_schedule', spec, ','.join(str(s) for s in case['schedule']), 'p' if case.get('preloaded') else '']], profile, timeout_each=60)[0]
        if r[0] != 'ok': return True, 'savers %r schedule %r -> %r' % (case['texts'], case['schedule'], r)
        rows = [native.unhx(x) for x in r[1]]
        bad = [row for row in rows if not row.endswith('ok')]
        return bool(bad), 'savers with cell texts %r stepping in the order %r: per saver "texts -> what its cells show in its own dump": %r' % (case['texts'], case['schedule'], rows)

def harnesses(tier):
    return [Interleaving(tier)]
OPTIONS = {'want_smir': True, 'level': 'other'}
