"""C17 — coordinate, column, range and address codecs are exact inverses grid-wide."""
import random
import z3
from engine.core import *
from engine.check import Harness, concrete
from engine import native

MAXC, MAXR = 16384, 1048576

# ---------------------------------------------------------------- oracle: bijective base-26 (independent of the code)
def letters_of(n):
    s = ''
    while n > 0:
        n -= 1; s = chr(65 + n % 26) + s; n //= 26
    return s
def index_of(s):
    v = 0
    for ch in s: v = v * 26 + (ord(ch) - 64)
    return v
def bij_value(chars):
    v = 0
    for ch in chars: v = v * 26 + (ch - 64)
    return v
def is_letters(chars): return z3.And(*[z3.And(ch >= 65, ch <= 90) for ch in chars]) if chars else True
def digits_value(chars):
    v = 0
    for ch in chars: v = v * 10 + (ch - 48)
    return v
def canonical_digits(chars):
    """decimal digits without leading zero"""
    cs = [z3.And(ch >= 48, ch <= 57) for ch in chars]
    if chars: cs.append(chars[0] != 48)
    return z3.And(*cs)
def coord_str(c, r, lc, lr): return ('$' if lc else '') + letters_of(c) + ('$' if lr else '') + str(r)
def sref(s): return Ref(Box_(s if isinstance(s, SStr) else S(s)))
def iref(v): return Ref(Box_(v))
def chars_eq(a, b):
    if len(a) != len(b): return False
    cs = [x == y for x, y in zip(a, b)]
    cs = [c for c in cs if not (isinstance(c, bool) and c)]
    if any(isinstance(c, bool) and not c for c in cs): return False
    return z3.And(*cs) if cs else True
def expect_coord_chars(chars, c, r, lc, lr):
    """z3 condition: `chars` is exactly the canonical print of (c, r, lc, lr); lc/lr concrete on the path"""
    i = 0; conds = []
    if lc:
        if not chars or not isinstance(chars[0], int) or chars[0] != 36: return False
        i = 1
    # letters up to next '$' or digit: lengths are concrete, contents symbolic -> split by position using concrete '$'
    rest_ = chars[i:]
    if lr:
        ks = [k for k, ch in enumerate(rest_) if isinstance(ch, int) and ch == 36]
        if len(ks) != 1: return False
        L, D = rest_[:ks[0]], rest_[ks[0]+1:]
        if not (1 <= len(L) <= 3 and 1 <= len(D) <= 7): return False
        return z3.And(is_letters(L), bij_value(L) == c, canonical_digits(D), digits_value(D) == r)
    alts = []
    for nl in (1, 2, 3):
        L, D = rest_[:nl], rest_[nl:]
        if len(L) == nl and 1 <= len(D) <= 7 and not any(isinstance(ch, int) and ch == 36 for ch in rest_):
            alts.append(z3.And(is_letters(L), bij_value(L) == c, canonical_digits(D), digits_value(D) == r))
    return z3.Or(*alts) if alts else False

class LettersFromIndex(Harness):
    name = 'letters.index_to_name'; property_id = 'C17'
    doc = 'string_from_column_index(c) is the bijective base-26 numeral of c and column_index_from_string maps it back, every column'
    bounds = {'column': [1, MAXC]}
    entry = ['helper::coordinate::string_from_column_index', 'helper::coordinate::column_index_from_string']
    def run(self, it, ctx, res):
        c = ctx.sym_int('col', 1, MAXC)
        try:
            s = it.call('helper::coordinate::string_from_column_index', [iref(c)])
            back = it.call('helper::coordinate::column_index_from_string::<&str>', [sref(SStr(s.chars))])
        except Panic as e:
            self.fail(ctx, res, 'no-panic', str(e)); return
        cs = s.chars
        prop = z3.And(len(cs) <= 3, is_letters(cs), bij_value(cs) == c, back == c) if 1 <= len(cs) <= 3 else False
        self.oblige(ctx, res, 'index->letters->index', prop, info={'letters': len(cs)})
    def validate(self, it, seed):
        rnd = random.Random(seed)
        cols = [1, 2, 26, 27, 28, 52, 53, 702, 703, 704, 16383, 16384] + [rnd.randint(1, MAXC) for _ in range(60)]
        nat = native.run_cases([['col2str', c] for c in cols])
        mism = []
        for c, n in zip(cols, nat):
            r = concrete(it, lambda: pstr(it.call('helper::coordinate::string_from_column_index', [iref(c)])))
            if (r[0], r[1]) != (n[0], native.unhx(n[1][0]) if n[0] == 'ok' else n[1]): mism.append('col2str(%d): mir %r native %r' % (c, r, n))
        return len(cols), mism
    def case_of(self, v):
        c = v['model']['col']
        return {'show': {'column': c}, 'col': c}
    def confirm(self, case, profile):
        c = case['col']
        r = native.run_cases([['col2str', c]], profile)[0]
        if r[0] != 'ok': return True, 'string_from_column_index(%d) -> %s %s' % (c, r[0], r[1])
        s = native.unhx(r[1][0])
        r2 = native.run_cases([['str2col', s]], profile)[0]
        back = int(r2[1][0]) if r2[0] == 'ok' else r2
        bad = s != letters_of(c) or back != c
        return bad, 'string_from_column_index(%d)=%r (expected %r), back=%r' % (c, s, letters_of(c), back)

class LettersToIndex(Harness):
    name = 'letters.name_to_index'; property_id = 'C17'
    doc = 'column_index_from_string(name) is the bijective base-26 value for every 1-3 letter name and prints back to the name'
    bounds = {'letters': [1, 3], 'alphabet': 'A-Z'}
    entry = LettersFromIndex.entry
    def run(self, it, ctx, res):
        n = ctx.sym_int('n', 1, 3)
        n = 1 if ctx.branch(n == 1) else (2 if ctx.branch(n == 2) else 3)
        cs = [ctx.sym_int('l%d' % i, 65, 90) for i in range(n)]
        try:
            idx = it.call('helper::coordinate::column_index_from_string::<&str>', [sref(SStr(cs))])
            back = it.call('helper::coordinate::string_from_column_index', [iref(idx)])
        except Panic as e:
            self.fail(ctx, res, 'no-panic', str(e)); return
        prop = z3.And(idx == bij_value(cs), chars_eq(back.chars, cs))
        self.oblige(ctx, res, 'letters->index->letters', prop, info={'letters': n})
    def validate(self, it, seed):
        rnd = random.Random(seed)
        names = ['A', 'B', 'Z', 'AA', 'AB', 'BA', 'ZZ', 'AAA', 'LAV', 'XFD', 'ZZZ'] + [letters_of(rnd.randint(1, 18278)) for _ in range(40)]
        nat = native.run_cases([['str2col', s] for s in names])
        mism = []
        for s, n in zip(names, nat):
            r = concrete(it, lambda: it.call('helper::coordinate::column_index_from_string::<&str>', [sref(s)]))
            if n[0] != 'ok' or r != ('ok', int(n[1][0])): mism.append('str2col(%s): mir %r native %r' % (s, r, n))
        return len(names), mism
    def case_of(self, v):
        m = v['model']; n = m['n']
        s = ''.join(chr(m['l%d' % i]) for i in range(n))
        return {'show': {'name': s}, 'name': s}
    def confirm(self, case, profile):
        s = case['name']
        r = native.run_cases([['str2col', s]], profile)[0]
        if r[0] != 'ok': return True, 'column_index_from_string(%r) -> %s' % (s, r)
        idx = int(r[1][0])
        r2 = native.run_cases([['col2str', idx]], profile)[0]
        back = native.unhx(r2[1][0]) if r2[0] == 'ok' else r2
        return (idx != index_of(s) or back != s), 'column_index_from_string(%r)=%d (expected %d), back=%r' % (s, idx, index_of(s), back)

class CoordPrintParse(Harness):
    name = 'coordinate.print_parse'; property_id = 'C17'
    doc = 'coordinate_from_index_with_lock(c,r,lc,lr) is the canonical A1 text and index_from_coordinate maps it back, whole grid x 4 lock combinations'
    bounds = {'column': [1, MAXC], 'row': [1, MAXR], 'locks': 'all 4'}
    entry = ['helper::coordinate::coordinate_from_index_with_lock', 'helper::coordinate::index_from_coordinate']
    def run(self, it, ctx, res):
        c = ctx.sym_int('col', 1, MAXC); r = ctx.sym_int('row', 1, MAXR)
        lc = ctx.branch(ctx.sym_bool('lock_col')); lr = ctx.branch(ctx.sym_bool('lock_row'))
        try:
            s = it.call('helper::coordinate::coordinate_from_index_with_lock', [iref(c), iref(r), iref(lc), iref(lr)])
            t = it.call('helper::coordinate::index_from_coordinate::<&str>', [sref(SStr(s.chars))])
        except Panic as e:
            self.fail(ctx, res, 'no-panic', str(e)); return
        good_print = expect_coord_chars(s.chars, c, r, lc, lr)
        self.oblige(ctx, res, 'print-is-canonical', good_print, info={'len': len(s.chars), 'lc': lc, 'lr': lr})
        ok = all(x.variant == 1 for x in t)
        prop = z3.And(t[0].fields[0] == c, t[1].fields[0] == r, bool_eq(t[2].fields[0], lc), bool_eq(t[3].fields[0], lr)) if ok else False
        self.oblige(ctx, res, 'parse(print(x))==x', prop, info={'len': len(s.chars), 'lc': lc, 'lr': lr})
    def validate(self, it, seed):
        rnd = random.Random(seed); cases = []
        for _ in range(60):
            cases.append((rnd.choice([1, 26, 27, 702, 703, MAXC, rnd.randint(1, MAXC)]), rnd.choice([1, 9, 10, 99999, MAXR, rnd.randint(1, MAXR)]), rnd.random() < .5, rnd.random() < .5))
        nat = native.run_cases([['coord_print', c, r, a, b] for c, r, a, b in cases])
        strs = ['A1', 'AA9', 'AAA12', '$A1', 'A$1', '$A$1', 'XFD1048576', 'A', '1', '$7', 'a1', '', '$$A1', 'A1:B2', 'ABCD1', 'A01']
        nat2 = native.run_cases([['coord_parse', s] for s in strs])
        mism = []
        for (c, r, a, b), n in zip(cases, nat):
            m = concrete(it, lambda: pstr(it.call('helper::coordinate::coordinate_from_index_with_lock', [iref(c), iref(r), iref(a), iref(b)])))
            if n[0] != 'ok' or m != ('ok', native.unhx(n[1][0])): mism.append('coord_print%r: mir %r native %r' % ((c, r, a, b), m, n))
        for s, n in zip(strs, nat2):
            m = concrete(it, lambda: show_index(it.call('helper::coordinate::index_from_coordinate::<&str>', [sref(s)])))
            if n[0] != 'ok' or m != ('ok', n[1]): mism.append('coord_parse(%r): mir %r native %r' % (s, m, n))
        return len(cases) + len(strs), mism
    def case_of(self, v):
        m = v['model']
        return {'show': {'col': m['col'], 'row': m['row'], 'lock_col': m['lock_col'], 'lock_row': m['lock_row']},
                'args': [m['col'], m['row'], bool(m['lock_col']), bool(m['lock_row'])]}
    def confirm(self, case, profile):
        c, r, lc, lr = case['args']
        n = native.run_cases([['coord_print', c, r, lc, lr]], profile)[0]
        if n[0] != 'ok': return True, 'print -> %r' % (n,)
        s = native.unhx(n[1][0])
        p = native.run_cases([['coord_parse', s]], profile)[0]
        exp = [str(c), str(r), 'true' if lc else 'false', 'true' if lr else 'false']
        bad = s != coord_str(c, r, lc, lr) or p[0] != 'ok' or p[1] != exp
        return bad, 'print=%r (expected %r), parse=%r (expected %r)' % (s, coord_str(c, r, lc, lr), p[1], exp)
def bool_eq(v, b):
    if isinstance(v, bool): return v == b
    return v if b else z3.Not(v)
def show_index(t):
    out = []
    for i, x in enumerate(t):
        if x.variant == 0: out.append('-')
        else:
            v = x.fields[0]
            out.append(('true' if v else 'false') if isinstance(v, bool) else str(v))
    return out

class CoordParsePrint(Harness):
    name = 'coordinate.parse_print'; property_id = 'C17'
    doc = 'every canonical string $?[A-Z]{1,3}$?[1-9][0-9]{0,6} inside the grid parses to its column/row/locks and prints back to itself'
    bounds = {'letters': [1, 3], 'digits': [1, 7], 'locks': 'all 4', 'grid': [MAXC, MAXR]}
    entry = CoordPrintParse.entry
    def run(self, it, ctx, res):
        nl = ctx.sym_int('nl', 1, 3); nd = ctx.sym_int('nd', 1, 7)
        nl = next(k for k in (1, 2, 3) if ctx.branch(nl == k))
        nd = next(k for k in range(1, 8) if ctx.branch(nd == k))
        lc = ctx.branch(ctx.sym_bool('lock_col')); lr = ctx.branch(ctx.sym_bool('lock_row'))
        L = [ctx.sym_int('l%d' % i, 65, 90) for i in range(nl)]
        D = [ctx.sym_int('d%d' % i, 48, 57) for i in range(nd)]
        ctx.assume(z3.And(D[0] != 48, bij_value(L) <= MAXC, digits_value(D) <= MAXR))
        chars = ([36] if lc else []) + L + ([36] if lr else []) + D
        try:
            t = it.call('helper::coordinate::index_from_coordinate::<&str>', [sref(SStr(chars))])
        except Panic as e:
            self.fail(ctx, res, 'no-panic', str(e)); return
        ok = all(x.variant == 1 for x in t)
        prop = False
        if ok:
            prop = z3.And(t[0].fields[0] == bij_value(L), t[1].fields[0] == digits_value(D), bool_eq(t[2].fields[0], lc), bool_eq(t[3].fields[0], lr))
        self.oblige(ctx, res, 'parse==oracle', prop, info={'nl': nl, 'nd': nd, 'lc': lc, 'lr': lr})
        if ok:
            try:
                s = it.call('helper::coordinate::coordinate_from_index_with_lock', [iref(t[0].fields[0]), iref(t[1].fields[0]), iref(t[2].fields[0]), iref(t[3].fields[0])])
            except Panic as e:
                self.fail(ctx, res, 'no-panic', str(e)); return
            self.oblige(ctx, res, 'print(parse(s))==s', chars_eq(s.chars, chars), info={'nl': nl, 'nd': nd})
    def case_of(self, v):
        m = v['model']
        s = ('$' if m['lock_col'] else '') + ''.join(chr(m['l%d' % i]) for i in range(m['nl'])) + ('$' if m['lock_row'] else '') + ''.join(chr(m['d%d' % i]) for i in range(m['nd']))
        return {'show': {'text': s}, 'text': s}
    def confirm(self, case, profile):
        s = case['text']
        import re
        mm = re.fullmatch(r'(\$?)([A-Z]+)(\$?)(\d+)', s)
        exp = [str(index_of(mm.group(2))), str(int(mm.group(4))), 'true' if mm.group(1) else 'false', 'true' if mm.group(3) else 'false']
        p = native.run_cases([['coord_parse', s]], profile)[0]
        if p[0] != 'ok' or p[1] != exp: return True, 'parse(%r)=%r expected %r' % (s, p, exp)
        n = native.run_cases([['coord_print', int(exp[0]), int(exp[1]), bool(mm.group(1)), bool(mm.group(3))]], profile)[0]
        back = native.unhx(n[1][0]) if n[0] == 'ok' else n
        return back != s, 'print(parse(%r))=%r' % (s, back)

def harnesses(tier):
    return [LettersFromIndex(), LettersToIndex(), CoordPrintParse(), CoordParsePrint()]
