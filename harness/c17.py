"""C17 — coordinate, column, range and address codecs are exact inverses grid-wide."""
import random
import z3
from engine.core import *
from engine.check import Harness, concrete
from engine import native

MAXC, MAXR = 16384, 1048576

# ---------------------------------------------------------------- oracle: bijective base-26 (independent of the code)
def letters_of(n):
    s = ''
    while n > 0:
        n -= 1; s = chr(65 + n % 26) + s; n //= 26
    return s
def index_of(s):
    v = 0
    for ch in s: v = v * 26 + (ord(ch) - 64)
    return v
def bij_value(chars):
    v = 0
    for ch in chars: v = v * 26 + (ch - 64)
    return v
def is_letters(chars): return z3.And(*[z3.And(ch >= 65, ch <= 90) for ch in chars]) if chars else True
def digits_value(chars):
    v = 0
    for ch in chars: v = v * 10 + (ch - 48)
    return v
def canonical_digits(chars):
    """decimal digits without leading zero"""
    cs = [z3.And(ch >= 48, ch <= 57) for ch in chars]
    if chars: cs.append(chars[0] != 48)
    return z3.And(*cs)
def coord_str(c, r, lc, lr): return ('$' if lc else '') + letters_of(c) + ('$' if lr else '') + str(r)
def sref(s): return Ref(Box_(s if isinstance(s, SStr) else S(s)))
def iref(v): return Ref(Box_(v))
def chars_eq(a, b):
    if len(a) != len(b): return False
    cs = [x == y for x, y in zip(a, b)]
    cs = [c for c in cs if not (isinstance(c, bool) and c)]
    if any(isinstance(c, bool) and not c for c in cs): return False
    return z3.And(*cs) if cs else True
def expect_coord_chars(chars, c, r, lc, lr):
    """z3 condition: `chars` is exactly the canonical print of (c, r, lc, lr); lc/lr concrete on the path"""
    i = 0; conds = []
    if lc:
        if not chars or not isinstance(chars[0], int) or chars[0] != 36: return False
        i = 1
    # letters up to next '$' or digit: lengths are concrete, contents symbolic -> split by position using concrete '$'
    rest_ = chars[i:]
    if lr:
        ks = [k for k, ch in enumerate(rest_) if isinstance(ch, int) and ch == 36]
        if len(ks) != 1: return False
        L, D = rest_[:ks[0]], rest_[ks[0]+1:]
        if not (1 <= len(L) <= 3 and 1 <= len(D) <= 7): return False
        return z3.And(is_letters(L), bij_value(L) == c, canonical_digits(D), digits_value(D) == r)
    alts = []
    for nl in (1, 2, 3):
        L, D = rest_[:nl], rest_[nl:]
        if len(L) == nl and 1 <= len(D) <= 7 and not any(isinstance(ch, int) and ch == 36 for ch in rest_):
            alts.append(z3.And(is_letters(L), bij_value(L) == c, canonical_digits(D), digits_value(D) == r))
    return z3.Or(*alts) if alts else False

class LettersFromIndex(Harness):
    name = 'letters.index_to_name'; property_id = 'C17'
    doc = 'string_from_column_index(c) is the bijective base-26 numeral of c and column_index_from_string maps it back, every column'
    bounds = {'column': [1, MAXC]}
    entry = ['helper::coordinate::string_from_column_index', 'helper::coordinate::column_index_from_string']
    def run(self, it, ctx, res):
        c = ctx.sym_int('col', 1, MAXC)
        try:
            s = it.call('helper::coordinate::string_from_column_index', [iref(c)])
            back = it.call('helper::coordinate::column_index_from_string::<&str>', [sref(SStr(s.chars))])
        except Panic as e:
            self.fail(ctx, res, 'no-panic', str(e)); return
        cs = s.chars
        prop = z3.And(len(cs) <= 3, is_letters(cs), bij_value(cs) == c, back == c) if 1 <= len(cs) <= 3 else False
        self.oblige(ctx, res, 'index->letters->index', prop, info={'letters': len(cs)})
    def validate(self, it, seed):
        rnd = random.Random(seed)
        cols = [1, 2, 26, 27, 28, 52, 53, 702, 703, 704, 16383, 16384] + [rnd.randint(1, MAXC) for _ in range(60)]
        nat = native.run_cases([['col2str', c] for c in cols])
        mism = []
        for c, n in zip(cols, nat):
            r = concrete(it, lambda: pstr(it.call('helper::coordinate::string_from_column_index', [iref(c)])))
            if (r[0], r[1]) != (n[0], native.unhx(n[1][0]) if n[0] == 'ok' else n[1]): mism.append('col2str(%d): mir %r native %r' % (c, r, n))
        return len(cols), mism
    def case_of(self, v):
        c = v['model']['col']
        return {'show': {'column': c}, 'col': c}
    def confirm(self, case, profile):
        c = case['col']
        r = native.run_cases([['col2str', c]], profile)[0]
        if r[0] != 'ok': return True, 'string_from_column_index(%d) -> %s %s' % (c, r[0], r[1])
        s = native.unhx(r[1][0])
        r2 = native.run_cases([['str2col', s]], profile)[0]
        back = int(r2[1][0]) if r2[0] == 'ok' else r2
        bad = s != letters_of(c) or back != c
        return bad, 'string_from_column_index(%d)=%r (expected %r), back=%r' % (c, s, letters_of(c), back)

class LettersToIndex(Harness):
    name = 'letters.name_to_index'; property_id = 'C17'
    doc = 'column_index_from_string(name) is the bijective base-26 value for every 1-3 letter name and prints back to the name'
    bounds = {'letters': [1, 3], 'alphabet': 'A-Z'}
    entry = LettersFromIndex.entry
    def run(self, it, ctx, res):
        n = ctx.sym_int('n', 1, 3)
        n = 1 if ctx.branch(n == 1) else (2 if ctx.branch(n == 2) else 3)
        cs = [ctx.sym_int('l%d' % i, 65, 90) for i in range(n)]
        try:
            idx = it.call('helper::coordinate::column_index_from_string::<&str>', [sref(SStr(cs))])
            back = it.call('helper::coordinate::string_from_column_index', [iref(idx)])
        except Panic as e:
            self.fail(ctx, res, 'no-panic', str(e)); return
        prop = z3.And(idx == bij_value(cs), chars_eq(back.chars, cs))
        self.oblige(ctx, res, 'letters->index->letters', prop, info={'letters': n})
    def validate(self, it, seed):
        rnd = random.Random(seed)
        names = ['A', 'B', 'Z', 'AA', 'AB', 'BA', 'ZZ', 'AAA', 'LAV', 'XFD', 'ZZZ'] + [letters_of(rnd.randint(1, 18278)) for _ in range(40)]
        nat = native.run_cases([['str2col', s] for s in names])
        mism = []
        for s, n in zip(names, nat):
            r = concrete(it, lambda: it.call('helper::coordinate::column_index_from_string::<&str>', [sref(s)]))
            if n[0] != 'ok' or r != ('ok', int(n[1][0])): mism.append('str2col(%s): mir %r native %r' % (s, r, n))
        return len(names), mism
    def case_of(self, v):
        m = v['model']; n = m['n']
        s = ''.join(chr(m['l%d' % i]) for i in range(n))
        return {'show': {'name': s}, 'name': s}
    def confirm(self, case, profile):
        s = case['name']
        r = native.run_cases([['str2col', s]], profile)[0]
        if r[0] != 'ok': return True, 'column_index_from_string(%r) -> %s' % (s, r)
        idx = int(r[1][0])
        r2 = native.run_cases([['col2str', idx]], profile)[0]
        back = native.unhx(r2[1][0]) if r2[0] == 'ok' else r2
        return (idx != index_of(s) or back != s), 'column_index_from_string(%r)=%d (expected %d), back=%r' % (s, idx, index_of(s), back)

class CoordPrintParse(Harness):
    name = 'coordinate.print_parse'; property_id = 'C17'
    doc = 'coordinate_from_index_with_lock(c,r,lc,lr) is the canonical A1 text and index_from_coordinate maps it back, whole grid x 4 lock combinations'
    bounds = {'column': [1, MAXC], 'row': [1, MAXR], 'locks': 'all 4'}
    entry = ['helper::coordinate::coordinate_from_index_with_lock', 'helper::coordinate::index_from_coordinate']
    def run(self, it, ctx, res):
        c = ctx.sym_int('col', 1, MAXC); r = ctx.sym_int('row', 1, MAXR)
        lc = ctx.branch(ctx.sym_bool('lock_col')); lr = ctx.branch(ctx.sym_bool('lock_row'))
        try:
            s = it.call('helper::coordinate::coordinate_from_index_with_lock', [iref(c), iref(r), iref(lc), iref(lr)])
            t = it.call('helper::coordinate::index_from_coordinate::<&str>', [sref(SStr(s.chars))])
        except Panic as e:
            self.fail(ctx, res, 'no-panic', str(e)); return
        good_print = expect_coord_chars(s.chars, c, r, lc, lr)
        self.oblige(ctx, res, 'print-is-canonical', good_print, info={'len': len(s.chars), 'lc': lc, 'lr': lr})
        ok = all(x.variant == 1 for x in t)
        prop = z3.And(t[0].fields[0] == c, t[1].fields[0] == r, bool_eq(t[2].fields[0], lc), bool_eq(t[3].fields[0], lr)) if ok else False
        self.oblige(ctx, res, 'parse(print(x))==x', prop, info={'len': len(s.chars), 'lc': lc, 'lr': lr})
    def validate(self, it, seed):
        rnd = random.Random(seed); cases = []
        for _ in range(60):
            cases.append((rnd.choice([1, 26, 27, 702, 703, MAXC, rnd.randint(1, MAXC)]), rnd.choice([1, 9, 10, 99999, MAXR, rnd.randint(1, MAXR)]), rnd.random() < .5, rnd.random() < .5))
        nat = native.run_cases([['coord_print', c, r, a, b] for c, r, a, b in cases])
        strs = ['A1', 'AA9', 'AAA12', '$A1', 'A$1', '$A$1', 'XFD1048576', 'A', '1', '$7', 'a1', '', '$$A1', 'A1:B2', 'ABCD1', 'A01']
        nat2 = native.run_cases([['coord_parse', s] for s in strs])
        mism = []
        for (c, r, a, b), n in zip(cases, nat):
            m = concrete(it, lambda: pstr(it.call('helper::coordinate::coordinate_from_index_with_lock', [iref(c), iref(r), iref(a), iref(b)])))
            if n[0] != 'ok' or m != ('ok', native.unhx(n[1][0])): mism.append('coord_print%r: mir %r native %r' % ((c, r, a, b), m, n))
        for s, n in zip(strs, nat2):
            m = concrete(it, lambda: show_index(it.call('helper::coordinate::index_from_coordinate::<&str>', [sref(s)])))
            if n[0] != 'ok' or m != ('ok', n[1]): mism.append('coord_parse(%r): mir %r native %r' % (s, m, n))
        return len(cases) + len(strs), mism
    def case_of(self, v):
        m = v['model']
        return {'show': {'col': m['col'], 'row': m['row'], 'lock_col': m['lock_col'], 'lock_row': m['lock_row']},
                'args': [m['col'], m['row'], bool(m['lock_col']), bool(m['lock_row'])]}
    def confirm(self, case, profile):
        c, r, lc, lr = case['args']
        n = native.run_cases([['coord_print', c, r, lc, lr]], profile)[0]
        if n[0] != 'ok': return True, 'print -> %r' % (n,)
        s = native.unhx(n[1][0])
        p = native.run_cases([['coord_parse', s]], profile)[0]
        exp = [str(c), str(r), 'true' if lc else 'false', 'true' if lr else 'false']
        bad = s != coord_str(c, r, lc, lr) or p[0] != 'ok' or p[1] != exp
        return bad, 'print=%r (expected %r), parse=%r (expected %r)' % (s, coord_str(c, r, lc, lr), p[1], exp)
def bool_eq(v, b):
    if isinstance(v, bool): return v == b
    return v if b else z3.Not(v)
def show_index(t):
    out = []
    for i, x in enumerate(t):
        if x.variant == 0: out.append('-')
        else:
            v = x.fields[0]
            out.append(('true' if v else 'false') if isinstance(v, bool) else str(v))
    return out

class CoordParsePrint(Harness):
    name = 'coordinate.parse_print'; property_id = 'C17'
    doc = 'every canonical string $?[A-Z]{1,3}$?[1-9][0-9]{0,6} inside the grid parses to its column/row/locks and prints back to itself'
    bounds = {'letters': [1, 3], 'digits': [1, 7], 'locks': 'all 4', 'grid': [MAXC, MAXR]}
    entry = CoordPrintParse.entry
    def run(self, it, ctx, res):
        nl = ctx.sym_int('nl', 1, 3); nd = ctx.sym_int('nd', 1, 7)
        nl = next(k for k in (1, 2, 3) if ctx.branch(nl == k))
        nd = next(k for k in range(1, 8) if ctx.branch(nd == k))
        lc = ctx.branch(ctx.sym_bool('lock_col')); lr = ctx.branch(ctx.sym_bool('lock_row'))
        L = [ctx.sym_int('l%d' % i, 65, 90) for i in range(nl)]
        D = [ctx.sym_int('d%d' % i, 48, 57) for i in range(nd)]
        ctx.assume(z3.And(D[0] != 48, bij_value(L) <= MAXC, digits_value(D) <= MAXR))
        chars = ([36] if lc else []) + L + ([36] if lr else []) + D
        try:
            t = it.call('helper::coordinate::index_from_coordinate::<&str>', [sref(SStr(chars))])
        except Panic as e:
            self.fail(ctx, res, 'no-panic', str(e)); return
        ok = all(x.variant == 1 for x in t)
        prop = False
        if ok:
            prop = z3.And(t[0].fields[0] == bij_value(L), t[1].fields[0] == digits_value(D), bool_eq(t[2].fields[0], lc), bool_eq(t[3].fields[0], lr))
        self.oblige(ctx, res, 'parse==oracle', prop, info={'nl': nl, 'nd': nd, 'lc': lc, 'lr': lr})
        if ok:
            try:
                s = it.call('helper::coordinate::coordinate_from_index_with_lock', [iref(t[0].fields[0]), iref(t[1].fields[0]), iref(t[2].fields[0]), iref(t[3].fields[0])])
            except Panic as e:
                self.fail(ctx, res, 'no-panic', str(e)); return
            self.oblige(ctx, res, 'print(parse(s))==s', chars_eq(s.chars, chars), info={'nl': nl, 'nd': nd})
    def case_of(self, v):
        m = v['model']
        s = ('$' if m['lock_col'] else '') + ''.join(chr(m['l%d' % i]) for i in range(m['nl'])) + ('$' if m['lock_row'] else '') + ''.join(chr(m['d%d' % i]) for i in range(m['nd']))
        return {'show': {'text': s}, 'text': s}
    def confirm(self, case, profile):
        s = case['text']
        import re
        mm = re.fullmatch(r'(\$?)([A-Z]+)(\$?)(\d+)', s)
        exp = [str(index_of(mm.group(2))), str(int(mm.group(4))), 'true' if mm.group(1) else 'false', 'true' if mm.group(3) else 'false']
        p = native.run_cases([['coord_parse', s]], profile)[0]
        if p[0] != 'ok' or p[1] != exp: return True, 'parse(%r)=%r expected %r' % (s, p, exp)
        n = native.run_cases([['coord_print', int(exp[0]), int(exp[1]), bool(mm.group(1)), bool(mm.group(3))]], profile)[0]
        back = native.unhx(n[1][0]) if n[0] == 'ok' else n
        return back != s, 'print(parse(%r))=%r' % (s, back)

# ---------------------------------------------------------------- oracle-side symbolic printers (fresh variables, linear constraints)
def sym_letters(ctx, c, tag):
    """code points of the bijective base-26 numeral of symbolic column c (1..16384): forks on the letter count"""
    if isinstance(c, int): return [ord(x) for x in letters_of(c)]
    n = 1 if ctx.branch(c <= 26) else (2 if ctx.branch(c <= 702) else 3)
    L = [ctx.fresh_int('L' + tag, 65, 90) for _ in range(n)]
    ctx.define(bij_value(L) == c)
    return L
def sym_digits(ctx, r, tag, maxd=7):
    if isinstance(r, int): return [ord(x) for x in str(r)]
    for nd in range(1, maxd + 1):
        if ctx.branch(r < 10 ** nd):
            D = [ctx.fresh_int('D' + tag, 48, 57) for _ in range(nd)]
            ctx.define(digits_value(D) == r)
            return D
    raise Unsupported('row with more than %d digits' % maxd)
def sym_coord(ctx, c, r, lc, lr, tag):
    out = []
    if c is not None: out += ([36] if lc else []) + sym_letters(ctx, c, tag)
    if r is not None: out += ([36] if lr else []) + sym_digits(ctx, r, tag)
    return out
def conc(model_eval, chars): return ''.join(chr(model_eval(c)) for c in chars)

SHAPES = ('cell', 'cell:cell', 'col:col', 'row:row')
class RangeCodec(Harness):
    name = 'range.parse_print'; property_id = 'C17'
    doc = 'Range::set_range(text).get_range() == text, corner getters and get_start_and_end_point(text) equal the corners, for cell, cell:cell, whole-column and whole-row ranges with symbolic corners'
    entry = ['structs::range::Range::set_range', 'structs::range::Range::get_range', 'helper::range::get_start_and_end_point']
    def __init__(self, tier):
        self.tier = tier
        self.bounds = {'shapes': list(SHAPES), 'column': [1, MAXC], 'row': [1, MAXR],
                       'locks': 'all combinations per corner' if tier == 'thorough' else 'the same 4 combinations on both corners'}
    def build(self, ctx):
        sh = ctx.sym_int('shape', 0, 3)
        shape = next(k for k in range(4) if ctx.branch(sh == k))
        c1 = ctx.sym_int('c1', 1, MAXC); c2 = ctx.sym_int('c2', 1, MAXC); r1 = ctx.sym_int('r1', 1, MAXR); r2 = ctx.sym_int('r2', 1, MAXR)
        ctx.assume(z3.And(c1 <= c2, r1 <= r2))
        lc1 = ctx.branch(ctx.sym_bool('lc1')); lr1 = ctx.branch(ctx.sym_bool('lr1'))
        if self.tier == 'thorough': lc2 = ctx.branch(ctx.sym_bool('lc2')); lr2 = ctx.branch(ctx.sym_bool('lr2'))
        else: lc2, lr2 = lc1, lr1
        name = SHAPES[shape]
        if name == 'cell': corners = [(c1, r1, lc1, lr1)]
        elif name == 'cell:cell': corners = [(c1, r1, lc1, lr1), (c2, r2, lc2, lr2)]
        elif name == 'col:col': corners = [(c1, None, lc1, False), (c2, None, lc2, False)]
        else: corners = [(None, r1, False, lr1), (None, r2, False, lr2)]
        text = []
        for i, (c, r, a, b) in enumerate(corners):
            if i: text.append(58)
            text += sym_coord(ctx, c, r, a, b, str(i))
        return name, corners, text
    def run(self, it, ctx, res):
        name, corners, text = self.build(ctx)
        info = {'shape': name, 'len': len(text)}
        try:
            rng = it.call('<structs::range::Range as std::default::Default>::default', [])
            cell = Box_(rng)
            it.call('structs::range::Range::set_range::<&str>', [Ref(cell), sref(SStr(text))])
            back = it.call('structs::range::Range::get_range', [Ref(cell)])
            # get_start_and_end_point refuses whole-row/column ranges with an explicit assert ("Non-standard range."):
            # a refusal is not a wrong corner, so the corner obligation is stated for cell and cell:cell only
            pts = it.call('helper::range::get_start_and_end_point', [sref(SStr(text))]) if name in ('cell', 'cell:cell') else None
        except Panic as e:
            self.fail(ctx, res, 'no-panic', str(e), info=info); return
        self.oblige(ctx, res, 'get_range(set_range(s))==s', chars_eq(back.chars, text), info=info)
        # corners stored in the struct
        st = cell.v.fields       # start_col, start_row, end_col, end_row : Option<{num,is_lock}>
        exp = []
        c0 = corners[0]; c1_ = corners[1] if len(corners) > 1 else None
        def opt_is(o, num, lock):
            if num is None: return o.variant == 0
            if o.variant != 1: return False
            return z3.And(o.fields[0].fields[0] == num, bool_eq(o.fields[0].fields[1], lock))
        conds = [opt_is(st[0], c0[0], c0[2]), opt_is(st[1], c0[1], c0[3])]
        if c1_: conds += [opt_is(st[2], c1_[0], c1_[2]), opt_is(st[3], c1_[1], c1_[3])]
        else: conds += [st[2].variant == 0, st[3].variant == 0]
        prop = False if any(c is False for c in conds) else z3.And(*[c for c in conds if c is not True])
        self.oblige(ctx, res, 'stored-corners', prop, info=info)
        if pts is None: return
        last = corners[-1]
        e = [c0[1] if c0[1] is not None else 0, last[1] if last[1] is not None else 0, c0[0] if c0[0] is not None else 0, last[0] if last[0] is not None else 0]
        self.oblige(ctx, res, 'get_start_and_end_point', z3.And(*[z3.IntVal(a) == b if isinstance(a, int) and isinstance(b, int) else a == b for a, b in zip(pts, e)]), info=info)
    def validate(self, it, seed):
        strs = ['A1', 'A1:B2', '$A$1:$B$2', 'A:B', '$A:$C', '1:2', '$1:$20', 'XFD1048576', 'C3:C3', 'AA10:AB1000']
        nat = native.run_cases([['range_rt', s] for s in strs]); mism = []
        for s, n in zip(strs, nat):
            def f():
                cell = Box_(it.call('<structs::range::Range as std::default::Default>::default', []))
                it.call('structs::range::Range::set_range::<&str>', [Ref(cell), sref(s)])
                pts = it.call('helper::range::get_start_and_end_point', [sref(s)]) if any(ch.isdigit() for ch in s) and any(ch.isalpha() for ch in s) else []
                return [pstr(it.call('structs::range::Range::get_range', [Ref(cell)]))] + [str(x) for x in pts]
            m = concrete(it, f)
            nn = [native.unhx(n[1][0])] + n[1][1:] if n[0] == 'ok' else n
            if m != ('ok', nn): mism.append('range_rt(%r): mir %r native %r' % (s, m, nn))
        return len(strs), mism
    def text_of(self, m):
        name = SHAPES[m['shape']]
        lc2, lr2 = (m['lc2'], m['lr2']) if 'lc2' in m else (m['lc1'], m['lr1'])
        a = coord_str(m['c1'], m['r1'], m['lc1'], m['lr1']); b = coord_str(m['c2'], m['r2'], lc2, lr2)
        if name == 'cell': return a
        if name == 'cell:cell': return a + ':' + b
        if name == 'col:col': return ('$' if m['lc1'] else '') + letters_of(m['c1']) + ':' + ('$' if lc2 else '') + letters_of(m['c2'])
        return ('$' if m['lr1'] else '') + str(m['r1']) + ':' + ('$' if lr2 else '') + str(m['r2'])
    def case_of(self, v):
        t = self.text_of(v['model']); return {'show': {'range': t}, 'text': t}
    def confirm(self, case, profile):
        import re
        s = case['text']
        n = native.run_cases([['range_rt', s]], profile)[0]
        if n[0] != 'ok': return True, 'range_rt(%r) -> %r' % (s, n)
        back = native.unhx(n[1][0]); pts = [int(x) for x in n[1][1:5]]
        if not pts: return back != s, 'get_range=%r' % back
        parts = s.split(':')
        def pc(t):
            mm = re.fullmatch(r'\$?([A-Z]*)\$?(\d*)', t)
            return (index_of(mm.group(1)) if mm.group(1) else 0, int(mm.group(2)) if mm.group(2) else 0)
        a = pc(parts[0]); b = pc(parts[-1])
        exp = [a[1], b[1], a[0], b[0]]
        return (back != s or pts != exp), 'get_range=%r, points=%r expected %r' % (back, pts, exp)

class CoordinateList(Harness):
    name = 'range.coordinate_list'; property_id = 'C17'
    doc = 'get_coordinate_list enumerates exactly the rectangle, row-major, for rectangles up to 3x3 anywhere in the grid'
    bounds = {'width': [1, 3], 'height': [1, 3], 'offset': 'anywhere in the grid'}
    entry = ['helper::range::get_coordinate_list']
    def run(self, it, ctx, res):
        c1 = ctx.sym_int('c1', 1, MAXC); r1 = ctx.sym_int('r1', 1, MAXR)
        w = ctx.sym_int('w', 1, 3); h = ctx.sym_int('h', 1, 3)
        wv = next(k for k in (1, 2, 3) if ctx.branch(w == k)); hv = next(k for k in (1, 2, 3) if ctx.branch(h == k))
        ctx.assume(z3.And(c1 + wv - 1 <= MAXC, r1 + hv - 1 <= MAXR))
        text = sym_coord(ctx, c1, r1, False, False, 'a') + [58] + sym_coord(ctx, c1 + wv - 1, r1 + hv - 1, False, False, 'b')
        try: lst = it.call('helper::range::get_coordinate_list', [sref(SStr(text))])
        except Panic as e:
            self.fail(ctx, res, 'no-panic', str(e)); return
        exp = [(c1 + dx, r1 + dy) for dy in range(hv) for dx in range(wv)]
        prop = False if len(lst) != len(exp) else z3.And(*[z3.And(a[0] == e[0], a[1] == e[1]) for a, e in zip(lst, exp)])
        self.oblige(ctx, res, 'rectangle-enumeration', prop, info={'w': wv, 'h': hv, 'n': len(lst)})
    def case_of(self, v):
        m = v['model']
        t = coord_str(m['c1'], m['r1'], False, False) + ':' + coord_str(m['c1'] + m['w'] - 1, m['r1'] + m['h'] - 1, False, False)
        return {'show': {'range': t}, 'text': t, 'rect': [m['c1'], m['r1'], m['w'], m['h']]}
    def confirm(self, case, profile):
        n = native.run_cases([['coord_list', case['text']]], profile)[0]
        c1, r1, w, h = case['rect']
        exp = [str(x) for dy in range(h) for dx in range(w) for x in (c1 + dx, r1 + dy)]
        return (n[0] != 'ok' or n[1] != exp), 'coordinate_list(%r)=%r' % (case['text'], n)

ILLEGAL = [ord(c) for c in ':\\/?*[]']
def legal_name_chars(ctx, n, tag='n'):
    cs = [ctx.sym_int('%s%d' % (tag, i), 32, 0x10FFFF) for i in range(n)]
    for c in cs:
        ctx.define(z3.Not(z3.And(c >= 0xD800, c <= 0xDFFF)), c != 127, *[c != x for x in ILLEGAL])
    ctx.define(cs[0] != 39, cs[-1] != 39)
    return cs
class AddressSplitJoin(Harness):
    name = 'address.split_join'; property_id = 'C17'
    doc = 'split_address(join_address(name, range)) == (name, range) for every legal sheet name of 1..N symbolic characters'
    entry = ['helper::address::split_address', 'helper::address::join_address']
    classes = {'dquote-edge': 'sheet name that starts or ends with a double quote loses it in split_address (trim_matches of both quote kinds)'}
    def __init__(self, tier):
        self.maxn = 4 if tier == 'thorough' else 3
        self.bounds = {'name_chars': [1, self.maxn], 'alphabet': 'every Unicode scalar >= U+0020 except : \\ / ? * [ ] and DEL; no apostrophe at either end', 'range': 'A1:B2 (concrete)'}
    def run(self, it, ctx, res):
        n = ctx.sym_int('len', 1, self.maxn)
        n = next(k for k in range(1, self.maxn + 1) if ctx.branch(n == k))
        cs = legal_name_chars(ctx, n)
        rng = [ord(c) for c in 'A1:B2']
        try:
            j = it.call('helper::address::join_address', [sref(SStr(cs)), sref(SStr(rng))])
            t = it.call('helper::address::split_address', [sref(SStr(j.chars))])
        except Panic as e:
            self.fail(ctx, res, 'no-panic', str(e)); return
        a, b = deref_all(t[0]), deref_all(t[1])
        prop = z3.And(chars_eq(a.chars, cs), chars_eq(b.chars, rng)) if len(a.chars) == n and len(b.chars) == len(rng) else False
        self.oblige(ctx, res, 'split(join(n,r))==(n,r)', prop, classes=[('dquote-edge', z3.Or(cs[0] == 34, cs[-1] == 34))], info={'len': n})
    def validate(self, it, seed):
        strs = ['A1', 'A1:B2', 'sheet1!A1:B2', "'she!et1'!A1:B2", '\'she"et1\'!A1:B2', "'My Sheet'!$A$1", '"q"!A1', 'a!b!C3', "it's!A1", '\u00e9t\u00e9!A1', '\U0001F600!B2']
        nat = native.run_cases([['split_addr', s] for s in strs]); mism = []
        for s, n in zip(strs, nat):
            m = concrete(it, lambda: [pstr(x) for x in it.call('helper::address::split_address', [sref(s)])])
            nn = [native.unhx(x) for x in n[1]] if n[0] == 'ok' else n
            if m != ('ok', nn): mism.append('split_address(%r): mir %r native %r' % (s, m, nn))
        return len(strs), mism
    def case_of(self, v):
        m = v['model']; name = ''.join(chr(m['n%d' % i]) for i in range(m['len']))
        return {'show': {'sheet_name': name}, 'name': name}
    def confirm(self, case, profile):
        n = native.run_cases([['join_split', case['name'], 'A1:B2']], profile)[0]
        got = [native.unhx(x) for x in n[1]] if n[0] == 'ok' else n
        return got != [case['name'], 'A1:B2'], 'split_address(join_address(%r,"A1:B2"))=%r' % (case['name'], got)

class AddressStruct(Harness):
    name = 'address.struct'; property_id = 'C17'
    doc = 'Address{sheet_name,range}.get_address() re-parsed by Address::set_address gives the same sheet name and range (both quoting patterns)'
    entry = ['structs::address::Address::set_address', 'structs::address::Address::get_address_crate']
    classes = {'dquote-edge': AddressSplitJoin.classes['dquote-edge'],
               'ptn2-apostrophe': "get_address_ptn2 doubles an apostrophe inside the quoted sheet name and set_address/split_address never undoes the doubling"}
    def __init__(self, tier):
        self.maxn = 4 if tier == "thorough" else 3
        self.bounds = {'name_chars': [1, self.maxn], 'alphabet': AddressSplitJoin(tier).bounds['alphabet'], 'range': 'B2:C3 (concrete)', 'patterns': ['get_address', 'get_address_ptn2']}
    def run(self, it, ctx, res):
        n = ctx.sym_int('len', 1, self.maxn)
        n = next(k for k in range(1, self.maxn + 1) if ctx.branch(n == k))
        ptn2 = ctx.branch(ctx.sym_bool('ptn2'))
        cs = legal_name_chars(ctx, n)
        rng = [ord(c) for c in 'B2:C3']
        try:
            a = Box_(it.call('<structs::address::Address as std::default::Default>::default', []))
            it.call('structs::address::Address::set_sheet_name::<&str>', [Ref(a), sref(SStr(cs))])
            it.call('structs::range::Range::set_range::<&str>', [it.call('structs::address::Address::get_range_mut', [Ref(a)]), sref(SStr(rng))])
            text = it.call('structs::address::Address::get_address_crate', [Ref(a), ptn2])
            b = Box_(it.call('<structs::address::Address as std::default::Default>::default', []))
            it.call('structs::address::Address::set_address::<&str>', [Ref(b), sref(SStr(text.chars))])
            name2 = deref_all(it.call('structs::address::Address::get_sheet_name', [Ref(b)]))
            rng2 = it.call('structs::range::Range::get_range', [it.call('structs::address::Address::get_range', [Ref(b)])])
        except Panic as e:
            self.fail(ctx, res, 'no-panic', str(e), info={'len': n, 'ptn2': ptn2}); return
        prop = z3.And(chars_eq(name2.chars, cs), chars_eq(rng2.chars, rng)) if len(name2.chars) == n and len(rng2.chars) == len(rng) else False
        classes = [('dquote-edge', z3.Or(cs[0] == 34, cs[-1] == 34))]
        if ptn2: classes.append(('ptn2-apostrophe', z3.Or(*[c == 39 for c in cs])))
        self.oblige(ctx, res, 'set_address(get_address())', prop, classes=classes, info={'len': n, 'ptn2': ptn2})
    def case_of(self, v):
        m = v['model']; name = ''.join(chr(m['n%d' % i]) for i in range(m['len']))
        return {'show': {'sheet_name': name, 'ptn2': bool(m['ptn2'])}, 'name': name, 'ptn2': bool(m['ptn2'])}
    def confirm(self, case, profile):
        n = native.run_cases([['addr_struct', case['name'], 'B2:C3', case['ptn2']]], profile)[0]
        got = [native.unhx(x) for x in n[1]] if n[0] == 'ok' else n
        return (n[0] != 'ok' or got[1:] != [case['name'], 'B2:C3']), 'text=%r reparsed=%r' % (got[0] if n[0] == 'ok' else None, got[1:] if n[0] == 'ok' else n)

def harnesses(tier):
    return [LettersFromIndex(), LettersToIndex(), CoordPrintParse(), CoordParsePrint(), RangeCodec(tier), CoordinateList(), AddressSplitJoin(tier), AddressStruct(tier)]
