"""C18 — date serial numbers and calendar dates convert exactly in both directions (engine K: Kani / CBMC)."""
import os, re, sys, json, time, subprocess, hashlib, datetime
import concurrent.futures as cf
from engine import run, native
from engine.check import write_evidence, log, load_known, OUT

KANI = os.path.join(run.VERIF, 'kani')
PID = 'C18'

def instances(tier):
    """(harness name, macro line, description, bound dict)"""
    out = []
    if tier == 'quick':
        yrs = [(1900, 1903), (1999, 2001), (9998, 9999)]
        serials = [(1, 59), (61, 1200), (2958000, 2958465)]
        out.append(('roundtrip_hour_edges_0', 'roundtrip_hour_edges!(roundtrip_hour_edges_0, 2024, 2, 3);', 'every full hour +-1 s of 2024-02-03', {'day': '2024-02-03', 'hours': [0, 23], 'minutes': [0, 59], 'seconds': [0, 1, 59]}))
    else:
        yrs = [(1900, 2100), (2101, 4000), (4001, 7000), (7001, 9999)]
        serials = [(1, 59), (61, 400000), (400001, 1200000), (1200001, 2000000), (2000001, 2958465)]
        out.append(('roundtrip_hour_edges_0', 'roundtrip_hour_edges!(roundtrip_hour_edges_0, 2024, 2, 3);', 'every full hour +-1 s of 2024-02-03', {'day': '2024-02-03'}))
        for i, (a, b) in enumerate([(0, 5), (6, 11), (12, 17), (18, 23)]):
            out.append(('roundtrip_time_%d' % i, 'roundtrip_time!(roundtrip_time_%d, 1900, 3, 1, %d, %d);' % (i, a, b), 'every second of hours %d..%d of 1900-03-01' % (a, b), {'day': '1900-03-01', 'hours': [a, b]}))
        out.append(('to_serial_monotone_0', 'to_serial_monotone!(to_serial_monotone_0, 1900, 1901);', 'strictly increasing in the second of the day', {'years': [1900, 1901]}))
    for i, (a, b) in enumerate(yrs):
        out.append(('to_serial_date_%d' % i, 'to_serial_date!(to_serial_date_%d, %d, %d);' % (i, a, b), 'every date of %d..%d -> serial' % (a, b), {'years': [a, b]}))
    for i, (a, b) in enumerate(serials):
        out.append(('from_serial_date_%d' % i, 'from_serial_date!(from_serial_date_%d, %d, %d);' % (i, a, b), 'every integer serial %d..%d -> date' % (a, b), {'serials': [a, b]}))
    return out

def run_kani(name, timeout_s, playback=False):
    tgt = os.path.join(run.CACHE, 'kani-target-' + name)
    cmd = ['cargo', 'kani', '--harness', name, '--target-dir', tgt, '--output-format', 'terse']
    if playback: cmd += ['-Z', 'concrete-playback', '--concrete-playback=print']
    t0 = time.time()
    pre = 'ulimit -v 16000000; exec '
    try:
        r = subprocess.run(['bash', '-c', pre + ' '.join(cmd)], cwd=KANI, env=dict(run.ENV), stdout=subprocess.PIPE, stderr=subprocess.STDOUT, text=True, timeout=timeout_s)
        out = r.stdout; rc = r.returncode
    except subprocess.TimeoutExpired as e:
        out = (e.stdout.decode() if isinstance(e.stdout, bytes) else (e.stdout or '')) + '\nTIMEOUT'; rc = -9
        subprocess.run(['pkill', '-f', 'kani-target-' + name])
    return {'name': name, 'rc': rc, 'out': out, 'wall_s': round(time.time() - t0, 1)}

def parse(res):
    o = res['out']
    m = re.search(r'\*\* (\d+) of (\d+) failed', o)
    checks = (int(m.group(1)), int(m.group(2))) if m else None
    cov = re.search(r'\*\* (\d+) of (\d+) cover properties satisfied', o)
    status = 'success' if 'VERIFICATION:- SUCCESSFUL' in o else ('failed' if 'VERIFICATION:- FAILED' in o else 'inconclusive')
    failed = re.findall(r'Failed Checks: (.*)', o)
    if status == 'failed' and any('unwinding assertion' in f for f in failed): status = 'inconclusive'
    if 'TIMEOUT' in o or 'Status: ERROR' in o or 'out of memory' in o.lower(): status = 'inconclusive'
    vt = re.search(r'Verification Time: ([0-9.]+)s', o)
    return {'status': status, 'checks': checks, 'cover': (int(cov.group(1)), int(cov.group(2))) if cov else None, 'failed': failed, 'verification_s': float(vt.group(1)) if vt else None}

def playback_values(out):
    """integers of the kani::any() calls of the counterexample, in call order (from the generated playback test)"""
    vals = []
    for m in re.finditer(r'//\s*(-?\d+)\s*\n\s*vec!\[', out): vals.append(int(m.group(1)))
    return vals

# ---- independent oracle on concrete values (python's proleptic Gregorian calendar)
def serial_of(y, m, d):
    n = (datetime.date(y, m, d) - datetime.date(1899, 12, 30)).days
    return n - 1 if (y, m) < (1900, 3) else n
def confirm_native(kind, vals, profile):
    if kind.startswith('to_serial_date') or kind.startswith('to_serial_monotone'):
        y, m, d = vals[:3]
        r = native.run_cases([['convert_date', y, m, d, 0, 0, 0]], profile)[0]
        exp = float(serial_of(y, m, d))
        return (r[0] != 'ok' or float(r[1][0]) != exp), 'convert_date(%d,%d,%d,0,0,0) -> %r expected %r' % (y, m, d, r[1], exp)
    if kind.startswith('roundtrip'):
        mm = re.search(r'\((\w+), (\d+), (\d+), (\d+)', [l for n_, l, *_ in instances('thorough') + instances('quick') if n_ == kind][0])
        y, mo, d = int(mm.group(2)), int(mm.group(3)), int(mm.group(4))
        h, mi, s = vals[:3]
        r = native.run_cases([['date_roundtrip', y, mo, d, h, mi, s]], profile)[0]
        exp = [str(x) for x in (y, mo, d, h, mi, s)]
        return (r[0] != 'ok' or r[1] != exp), 'convert_date(%s) -> excel_to_date_time_object -> %r expected %r' % ((y, mo, d, h, mi, s), r[1], exp)
    if kind.startswith('from_serial'):
        n = vals[0]
        r = native.run_cases([['serial_to_date', n]], profile)[0]
        dt = datetime.date(1899, 12, 30) + datetime.timedelta(days=n if n >= 61 else n + 1)
        exp = [str(dt.year), str(dt.month), str(dt.day), '0', '0', '0']
        return (r[0] != 'ok' or r[1] != exp), 'excel_to_date_time_object(%d) -> %r expected %r' % (n, r[1], exp)
    return False, 'no native confirmation for ' + kind

def main(tier, seed, only=None):
    t00 = time.time()
    os.makedirs(os.path.join(OUT, PID), exist_ok=True)
    inst = instances(tier)
    if only: inst = [i for i in inst if i[0] in only.split(',')]
    with open(os.path.join(KANI, 'src', 'gen.rs'), 'w') as f:
        f.write('// generated by harness/c18.py for tier %s\n' % tier + '\n'.join(i[1] for i in inst) + '\n')
    subprocess.run(['cp', os.path.join(run.REPO, 'Cargo.lock'), os.path.join(KANI, 'Cargo.lock')])
    timeout_s = 1500 if tier == 'quick' else 6 * 3600
    cov = {'states': 0, 'transitions': 0, 'traces_validated_against_impl': 0, 'samples': [], 'harnesses': {}, 'tree_hash': run.tree_hash(),
           'solver': 'CBMC 6.11 (CaDiCaL) under Kani 0.68', 'explanation': 'bit-precise bounded model checking of the compiled date functions (real chrono, real f64 arithmetic) by Kani/CBMC; the SAT solver decides every assertion for all values in the stated ranges'}
    inconclusive, violations = [], []
    validated = [0]
    nworkers = min(len(inst), 6)
    with cf.ThreadPoolExecutor(max_workers=nworkers) as ex:
        futs = {ex.submit(run_kani, i[0], timeout_s): i for i in inst}
        for fu in cf.as_completed(futs):
            name, line, desc, bounds = futs[fu]; res = fu.result(); p = parse(res)
            log('%s: %s, checks %s, cover %s, %.0fs' % (name, p['status'], p['checks'], p['cover'], res['wall_s']))
            hc = dict(p, bounds=bounds, doc=desc, wall_s=res['wall_s']); cov['harnesses'][name] = hc
            if p['checks']: cov['states'] += p['checks'][1]; cov['transitions'] += p['checks'][1]
            if p['status'] == 'success':
                if not p['cover'] or p['cover'][0] != p['cover'][1]: inconclusive.append('%s: cover property not satisfied (vacuous harness?)' % name)
                # cross-validation of the encoding: the natively compiled functions, run over the same finite domain, must agree
                try:
                    nat = native_scan(name, line, 'dev')
                    hc['native_scan'] = nat or 'no deviation'
                    if nat: inconclusive.append('%s: CBMC verified the harness but the native build deviates at %s' % (name, nat))
                    else: validated[0] += 1
                except Exception as e:
                    inconclusive.append('%s: native cross-validation failed: %s' % (name, e))
                cov['samples'].append({'harness': name, 'bounds': bounds, 'checks': p['checks'], 'verification_s': p['verification_s']})
            elif p['status'] == 'inconclusive':
                inconclusive.append('%s: %s' % (name, (p['failed'] or [res['out'][-300:]])[0][:300]))
            else:
                # CBMC says the assertion can fail inside the harness domain: find and confirm the concrete input natively
                try:
                    found = {prof: native_scan(name, line, prof) for prof in ('dev', 'release')}
                except Exception as e:
                    inconclusive.append('%s: native scan error %s' % (name, e)); continue
                hc['native_counterexample'] = found
                if any(v for v in found.values()):
                    vals = found['dev'] or found['release']
                    rec = {'property': PID, 'harness': name, 'oblig': '; '.join(p['failed'])[:200], 'case': {'scan': scan_args(name, line), 'input': vals, 'show': {'harness': desc, 'input': vals}},
                           'dev': 'deviates from the civil-calendar oracle at %s' % found['dev'] if found['dev'] else 'no deviation', 'release': 'deviates at %s' % found['release'] if found['release'] else 'no deviation'}
                    fn = os.path.join(OUT, PID, 'violation-%s-%s.json' % (name, hashlib.sha1(json.dumps(vals).encode()).hexdigest()[:10]))
                    json.dump(rec, open(fn, 'w'), indent=1); violations.append((fn, rec))
                else:
                    inconclusive.append('%s: CBMC reports a failing assertion (%s) but no input of the harness domain deviates natively' % (name, '; '.join(p['failed'])[:120]))
    cov['traces_validated_against_impl'] = validated[0]
    cov['traces_validated_note'] = 'harnesses whose finite input domain was also run through the natively compiled functions (replay binary) with the same verdict'
    if not cov['samples']: cov['samples'] = [{'note': 'no harness verified'}]
    cov['states'] = max(cov['states'], 1); cov['transitions'] = max(cov['transitions'], 1)
    for fn, rec in violations:
        log('VIOLATION property=%s replay=%s' % (PID, fn)); log('  %s: %s' % (rec['harness'], rec['dev']))
    for m in inconclusive: log('INCONCLUSIVE: ' + m)
    rc = 1 if violations else (2 if inconclusive else 0)
    write_evidence(PID, tier, seed, 'model_checking', cov, ['chrono and core float/int formatting as compiled (they are part of the model, not trusted)', 'serial 60 (the non-existent 1900-02-29) carries no obligation',
                   'time zones are ignored by the code', 'Kani unwinding bound 12 with unwinding assertions on'], time.time() - t00, len(violations), '; '.join(inconclusive)[:1500])
    log('%s %s: exit %d (%.0fs)' % (PID, tier, rc, time.time() - t00))
    return rc

def scan_args(name, line):
    nums = [int(x) for x in re.findall(r'-?\d+', line.split('(', 1)[1].split(',', 1)[1])]
    if name.startswith('to_serial_date'): return ['scan_dates', 'to_serial', nums[0], nums[1]]
    if name.startswith('to_serial_monotone'): return None
    if name.startswith('from_serial'): return ['scan_dates', 'from_serial', nums[0], nums[1]]
    if name.startswith('roundtrip_hour_edges'): return ['scan_dates', 'edges', 0, 23, nums[0], nums[1], nums[2]]
    if name.startswith('roundtrip_time'): return ['scan_dates', 'roundtrip', nums[3], nums[4], nums[0], nums[1], nums[2]]
def native_scan(name, line, profile):
    if name.startswith('to_serial_monotone'):
        nums = [int(x) for x in re.findall(r'-?\d+', line.split('(', 1)[1].split(',', 1)[1])]
        for y in range(nums[0], nums[1] + 1):
            for (m, d) in ((1, 1), (2, 28), (3, 1), (12, 31)):
                r = native.run_cases([['scan_dates', 'monotone', 0, 23, y, m, d]], profile, timeout_each=600)[0]
                if r[0] != 'ok' or r[1][0] != 'none': return '%d-%d-%d %r' % (y, m, d, r[1])
        return None
    r = native.run_cases([scan_args(name, line)], profile, timeout_each=1800)[0]
    if r[0] != 'ok': return '%s %s' % (r[0], r[1])
    return None if r[1][0] == 'none' else r[1][0]

class _Replay:
    def __init__(self, name): self.name = name
    def confirm(self, case, profile):
        r = native.run_cases([case['scan']], profile, timeout_each=1800)[0]
        bad = r[0] != 'ok' or r[1][0] != 'none'
        return bad, 'native scan %r -> %r' % (case['scan'], r[1])
def all_harnesses():
    return [_Replay(i[0]) for i in instances('quick') + instances('thorough')]
