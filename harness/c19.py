"""C19 — formatted values show the correctly rounded number (fixed-decimal / thousands / percentage kernels)."""
import random, re
from decimal import Decimal, ROUND_HALF_UP
import z3
from engine.core import *
from engine.check import Harness, concrete
from engine import native
from harness.c17 import sref, iref

NF = 'helper::number_format::number_formater::'
PF = 'helper::number_format::percentage_formater::'

def digits_val(ds):
    v = 0
    for d in ds: v = v * 10 + (d - 48)
    return v
def sym_number_text(ctx, max_int, max_frac, tag=''):
    """shortest decimal text of a finite f64 as `to_string` prints it: [-]int[.frac], no leading zero, no trailing zero in frac"""
    neg = ctx.branch(ctx.sym_bool(tag + 'neg'))
    ni = ctx.sym_int(tag + 'ni', 1, max_int); ni = next(k for k in range(1, max_int + 1) if ctx.branch(ni == k))
    nf = ctx.sym_int(tag + 'nf', 0, max_frac); nf = next(k for k in range(0, max_frac + 1) if ctx.branch(nf == k))
    I = [ctx.sym_int('%si%d' % (tag, k), 48, 57) for k in range(ni)]
    F = [ctx.sym_int('%sf%d' % (tag, k), 48, 57) for k in range(nf)]
    if ni > 1: ctx.define(I[0] != 48)
    if nf: ctx.define(F[-1] != 48)
    if neg and nf == 0: ctx.define(z3.Or(*[d != 48 for d in I]))        # "-0" is printed by f64 Display, but keep values non-zero here
    return neg, I, F
def number_text_of(m, tag=''):
    s = ''.join(chr(m['%si%d' % (tag, k)]) for k in range(m[tag + 'ni']))
    if m[tag + 'nf']: s += '.' + ''.join(chr(m['%sf%d' % (tag, k)]) for k in range(m[tag + 'nf']))
    return ('-' if m[tag + 'neg'] else '') + s
def expected_rounded(I, F, k, shift=0):
    """(q) = |value| * 10^shift rounded half away from zero to k decimals, as integer count of 10^-k units"""
    V = digits_val(I + F); nf = len(F) - shift              # value = V / 10^nf
    if nf <= k: return V * 10 ** (k - nf)
    d = 10 ** (nf - k)
    # q = floor(V / d), round up when remainder*2 >= d
    return ('round', V, d)
def check_output(ctx, out, neg, I, F, k, thousands, shift=0, suffix=''):
    """z3 condition: `out` (chars) is sign + grouped integer digits + '.' + k decimals + suffix and equals the rounded value"""
    cs = list(out)
    for ch in reversed(suffix):
        if not cs or not isinstance(cs[-1], int) or cs[-1] != ord(ch): return False
        cs.pop()
    if neg:
        if not cs or not ctx.B(cs[0] == 45): return False
        cs = cs[1:]
    elif cs and ctx.B(cs[0] == 45): return False
    if k:
        if len(cs) < k + 2 or not ctx.B(cs[-k - 1] == 46): return False
        ip, fp = cs[:-k - 1], cs[-k:]
    else: ip, fp = cs, []
    if not ip: return False
    conds = []
    if thousands:
        # digits in groups of three from the right separated by ','
        digs = []
        for pos, ch in enumerate(reversed(ip)):
            if pos % 4 == 3:
                if not ctx.B(ch == 44): return False
            else: digs.append(ch)
        if (len(ip)) % 4 == 0: return False
        ip = list(reversed(digs))
    alld = ip + fp
    conds += [z3.And(d >= 48, d <= 57) if is_sym(d) else (48 <= d <= 57) for d in alld]
    if len(ip) > 1: conds.append(ip[0] != 48)
    got = digits_val(alld)
    e = expected_rounded(I, F, k, shift)
    if isinstance(e, tuple):
        _, V, d = e
        q, r = ctx.divmod(V, d) if is_sym(V) else (V // d, V % d)
        conds.append(got == z3.If(2 * r >= d, q + 1, q))
    else: conds.append(got == e)
    conds = [c for c in conds if c is not True]
    if any(c is False for c in conds): return False
    return z3.And(*conds) if conds else True

def py_round(text, k, shift=0):
    d = Decimal(text).scaleb(shift)
    q = d.quantize(Decimal(1).scaleb(-k), rounding=ROUND_HALF_UP)
    s = format(abs(q), 'f')
    return ('-' if text.startswith('-') else '') + s
def group(s):
    neg = s.startswith('-'); s = s.lstrip('-')
    ip, _, fp = s.partition('.')
    ip = re.sub(r'(?<=\d)(?=(\d{3})+$)', ',', ip)
    return ('-' if neg else '') + ip + ('.' + fp if fp else '')

class FixedDecimals(Harness):
    name = 'fixed_decimals'; property_id = 'C19'
    entry = [NF + 'format_straight_numeric_value']
    classes = {}
    def __init__(self, tier):
        self.mi, self.mf, self.mk = (4, 5, 4) if tier == 'quick' else (7, 9, 6)
        self.doc = 'format_straight_numeric_value on the shortest decimal text of a number: symbolic sign, integer digits and fraction digits, patterns 0 / 0.0 .. with and without thousands separators, against exact decimal rounding half away from zero'
        self.bounds = {'integer_digits': [1, self.mi], 'fraction_digits': [0, self.mf], 'pattern_decimals': [0, self.mk], 'thousands': [False, True], 'sign': ['+', '-']}
    def run(self, it, ctx, res):
        k = ctx.sym_int('k', 0, self.mk); k = next(x for x in range(self.mk + 1) if ctx.branch(k == x))
        th = ctx.branch(ctx.sym_bool('thousands'))
        neg, I, F = sym_number_text(ctx, self.mi, self.mf)
        text = ([45] if neg else []) + I + ([46] + F if F else [])
        pat = '0' + ('.' + '0' * k if k else '')
        matches = [S(pat), S('0'), S('.' if k else ''), S('0' * k)]
        info = {'k': k, 'thousands': th, 'ni': len(I), 'nf': len(F), 'neg': neg}
        try:
            out = it.call(NF + 'format_straight_numeric_value', [sref(SStr(text)), sref(pat), Ref(Box_(matches)), iref(th), sref(r'(0+)(\.?)(0*)')])
        except Panic as e:
            self.fail(ctx, res, 'no-panic', str(e), info=info); return
        self.oblige(ctx, res, 'rounded-to-pattern', check_output(ctx, out.chars, neg, I, F, k, th), info=info)
    def case_of(self, v):
        m = v['model']; k = m['k']
        c = {'number': number_text_of(m), 'pattern': ('#,##0' if m['thousands'] else '0') + ('.' + '0' * k if k else '')}
        c['show'] = dict(c); return c
    def confirm(self, case, profile):
        r = native.run_cases([['format_value', case['number'], case['pattern']]], profile)[0]
        k = len(case['pattern'].partition('.')[2])
        exp = py_round(case['number'], k)
        if ',' in case['pattern']: exp = group(exp)
        got = native.unhx(r[1][0]) if r[0] == 'ok' else None
        return (r[0] != 'ok' or got != exp), 'Cell %s formatted with %r -> %s %r expected %r' % (case['number'], case['pattern'], r[0], got if r[0] == 'ok' else r[1], exp)
    def validate(self, it, seed):
        cs = [('1.5', '0.0', 1, False), ('12.25', '0.0', 1, False), ('3', '0.00', 2, False), ('1234.5', '0', 0, False), ('0.125', '0.000', 3, False), ('-7.25', '0.00', 2, False)]
        nat = native.run_cases([['straight', a, b, k, th] for a, b, k, th in cs]); mism = []
        for (a, b, k, th), n in zip(cs, nat):
            matches = [S(b), S('0'), S('.' if k else ''), S('0' * k)]
            m = concrete(it, lambda: pstr(it.call(NF + 'format_straight_numeric_value', [sref(a), sref(b), Ref(Box_(matches)), iref(th), sref('x')])))
            nn = ('ok', native.unhx(n[1][0])) if n[0] == 'ok' else (n[0], None)
            if (m if m[0] == 'ok' else (m[0], None)) != nn: mism.append('straight(%r,%r): mir %r native %r' % (a, b, m, n))
        return len(cs), mism

class NumberPath(FixedDecimals):
    """the same obligation one level up: format_as_number prepares the text (to_string, scale, pattern clean-up by regexes) and calls the kernel"""
    name = 'number.format_as_number'
    entry = [NF + 'format_as_number', NF + 'format_straight_numeric_value']
    def __init__(self, tier):
        self.mi, self.mf, self.mk = (3, 4, 3) if tier == 'quick' else (6, 8, 5)
        self.doc = 'format_as_number(&f64, pattern) on a number given by its shortest decimal text (f64::to_string / parse trusted, x / 1.0 == x): patterns 0, 0.0 .., #,##0, #,##0.0 ..: exact decimal rounding half away from zero'
        self.bounds = {'integer_digits': [1, self.mi], 'fraction_digits': [0, self.mf], 'pattern_decimals': [0, self.mk], 'thousands': [False, True], 'sign': ['+', '-'], 'scale_commas': 'none (a scaled value needs float arithmetic)'}
    def run(self, it, ctx, res):
        from engine.models import F64Text
        k = ctx.sym_int('k', 0, self.mk); k = next(x for x in range(self.mk + 1) if ctx.branch(k == x))
        th = ctx.branch(ctx.sym_bool('thousands'))
        neg, I, F = sym_number_text(ctx, self.mi, self.mf)
        text = ([45] if neg else []) + I + ([46] + F if F else [])
        pat = ('#,##0' if th else '0') + ('.' + '0' * k if k else '')
        info = {'k': k, 'thousands': th, 'ni': len(I), 'nf': len(F), 'neg': neg}
        try:
            out = it.call(NF + 'format_as_number', [Ref(Box_(F64Text(text))), sref(pat)])
        except Panic as e:
            self.fail(ctx, res, 'no-panic', str(e), info=info); return
        o = deref_all(out.fields[0]) if isinstance(out, Adt) else deref_all(out)
        self.oblige(ctx, res, 'rounded-to-pattern', check_output(ctx, o.chars, neg, I, F, k, th), info=info)
    def validate(self, it, seed): return 0, []

class Percentage(Harness):
    name = 'percentage'; property_id = 'C19'
    entry = [PF + 'format_as_percentage', NF + 'round_decimal_text']
    def __init__(self, tier):
        self.mi, self.mf, self.mk = (3, 6, 3) if tier == 'quick' else (5, 9, 5)
        self.doc = 'format_as_percentage on a number given by its shortest decimal text (f64::to_string trusted): 100 x value rounded half away from zero to the decimals of 0% / 0.0% / ..'
        self.bounds = {'integer_digits': [1, self.mi], 'fraction_digits': [0, self.mf], 'pattern_decimals': [0, self.mk], 'sign': ['+', '-']}
    def run(self, it, ctx, res):
        from engine.models import F64Text
        k = ctx.sym_int('k', 0, self.mk); k = next(x for x in range(self.mk + 1) if ctx.branch(k == x))
        neg, I, F = sym_number_text(ctx, self.mi, self.mf)
        text = ([45] if neg else []) + I + ([46] + F if F else [])
        pat = '0' + ('.' + '0' * k if k else '') + '%'
        info = {'k': k, 'ni': len(I), 'nf': len(F), 'neg': neg}
        try:
            out = it.call(PF + 'format_as_percentage', [Ref(Box_(F64Text(text))), sref(pat)])
        except Panic as e:
            self.fail(ctx, res, 'no-panic', str(e), info=info); return
        chars = deref_all(out.fields[0]).chars
        self.oblige(ctx, res, 'percent-rounded-to-pattern', check_output(ctx, chars, neg, I, F, k, False, shift=2, suffix='%'), info=info)
    def case_of(self, v):
        m = v['model']; k = m['k']
        c = {'number': number_text_of(m), 'pattern': '0' + ('.' + '0' * k if k else '') + '%'}
        c['show'] = dict(c); return c
    def confirm(self, case, profile):
        r = native.run_cases([['format_value', case['number'], case['pattern']]], profile)[0]
        k = len(case['pattern'].rstrip('%').partition('.')[2])
        exp = py_round(case['number'], k, shift=2) + '%'
        got = native.unhx(r[1][0]) if r[0] == 'ok' else None
        return (r[0] != 'ok' or got != exp), 'Cell %s formatted with %r -> %s %r expected %r' % (case['number'], case['pattern'], r[0], got if r[0] == 'ok' else r[1], exp)

def harnesses(tier):
    return [FixedDecimals(tier), NumberPath(tier), Percentage(tier)]
