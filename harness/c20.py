"""C20 — CSV export is a faithful rectangular rendering of the active sheet (UTF-8 output)."""
import z3
from engine.core import *
from engine.check import Harness, concrete
from engine import native, iomodel
from harness.c17 import sref, iref

ALPHABET = [ord('a'), ord(','), ord('"'), ord("'"), 32, 13, 10, 0xE9, 0x3000]
class TextBytes(list):
    """the UTF-8 bytes of a String, kept as its code points (String::into_bytes / UTF-8 encoding is std and trusted)"""
    def __init__(self, chars): super().__init__(chars); self.chars = list(chars)
class Collect:
    def __init__(self): self.chunks = []
def parse_csv(ctx, cs, quote):
    """RFC 4180 with delimiter ',', record terminator CRLF and the given quote character
    -> list of records (lists of fields = lists of code points), or None when the text is not well-formed"""
    B = lambda e: ctx.branch(e) if not isinstance(e, bool) else e
    recs, rec, i, n = [], [], 0, len(cs)
    while i < n:
        # one field
        field = []
        if B(cs[i] == quote):
            i += 1
            while True:
                if i >= n: return None
                if B(cs[i] == quote):
                    if i + 1 < n and B(cs[i + 1] == quote): field.append(quote); i += 2; continue
                    i += 1; break
                field.append(cs[i]); i += 1
        else:
            while i < n and not B(cs[i] == 44) and not B(cs[i] == 13):
                if B(cs[i] == 10) or B(cs[i] == quote): return None
                field.append(cs[i]); i += 1
        rec.append(field)
        if i >= n: return None                      # the last record must be terminated by CRLF
        if B(cs[i] == 44):
            i += 1
            if i >= n: return None
            continue
        if B(cs[i] == 13) and i + 1 < n and B(cs[i + 1] == 10):
            recs.append(rec); rec = []; i += 2; continue
        return None
    if rec: return None
    return recs

CSV = 'writer::csv::'
class CsvGrid(Harness):
    name = 'grid'; property_id = 'C20'
    entry = [CSV + 'write_writer']
    classes = {}
    def __init__(self, tier, maxcells=2, maxlen=2, name='grid'):
        self.name = name
        self.maxlen = maxlen
        self.doc = 'writer::csv::write_writer on a real workbook (2x2 area, each cell present or missing, texts of 0..%d symbolic characters from a delimiter-rich alphabet, trim on/off, wrap character none / double quote / apostrophe): an RFC 4180 parser with the same delimiter and quote recovers exactly the grid' % self.maxlen
        self.bounds = {'area': '2 x 2', 'present_cells': 'every subset of the 2x2 area with at most %d cells' % maxcells, 'text_chars': [0, self.maxlen], 'alphabet': [chr(c) for c in ALPHABET], 'removed_before_export': 'optionally one of the written cells', 'do_trim': [False, True], 'wrap': ['', '"', "'"], 'encoding': 'UTF-8 only'}
        self.maxcells = maxcells
    def setup(self, it): iomodel.install(it)
    def run(self, it, ctx, res):
        trim = ctx.branch(ctx.sym_bool('do_trim'))
        wi = ctx.sym_int('wrap', 0, 2); wrap = ['', '"', "'"][next(i for i in range(3) if ctx.branch(wi == i))]
        cells = {}
        for (c, r) in ((1, 1), (2, 1), (1, 2), (2, 2)):
            if len(cells) < self.maxcells and ctx.branch(ctx.sym_bool('present_%d_%d' % (c, r))):
                n = ctx.sym_int('len_%d_%d' % (c, r), 0, self.maxlen); n = next(k for k in range(self.maxlen + 1) if ctx.branch(n == k))
                cs = [ctx.sym_int('t_%d_%d_%d' % (c, r, k), 0, 0x3000) for k in range(n)]
                for ch in cs: ctx.define(z3.Or(*[ch == a for a in ALPHABET]))
                cells[(c, r)] = cs
        if not cells: return 'empty'
        # a cell may be written and removed again before the export: the exported area follows the cells that are left
        removed = None
        if len(cells) >= 2 and ctx.branch(ctx.sym_bool('remove_one')):
            keys = sorted(cells); ri = ctx.sym_int('removed', 0, len(keys) - 1); removed = keys[next(i for i in range(len(keys)) if ctx.branch(ri == i))]
        sink = Collect()
        info = {'trim': trim, 'wrap': wrap, 'cells': {('%d,%d' % k): len(v) for k, v in cells.items()}, 'removed': removed}
        it.stubs = {'std::string::String::into_bytes': lambda it_, s: TextBytes(deref_all(s).chars)}
        extra = [(re_compile(r'<(&mut )*VerifCollect as std::io::Write>::write_all'), (lambda it_, w, data: (deref_all(w).chunks.append(deref_all(data)), OK([]))[1]), False)]
        it.models = extra + it.models
        try:
            book = Box_(it.call('<structs::spreadsheet::Spreadsheet as std::default::Default>::default', []))
            ws = it.call('structs::spreadsheet::Spreadsheet::new_sheet::<&str>', [Ref(book), sref('S')]).fields[0]
            for (c, r), cs in cells.items():
                cell = it.call('structs::worksheet::Worksheet::get_cell_mut::<(u32, u32)>', [ws, [c, r]])
                it.call('structs::cell::Cell::set_value_string::<&str>', [cell, sref(SStr(cs))])
            if removed is not None:
                it.call('structs::worksheet::Worksheet::remove_cell::<(u32, u32)>', [ws, [removed[0], removed[1]]])
                del cells[removed]
            opt = Box_(it.call('<structs::csv_writer_option::CsvWriterOption as std::default::Default>::default', []))
            it.call('structs::csv_writer_option::CsvWriterOption::set_do_trim', [Ref(opt), trim])
            it.call('structs::csv_writer_option::CsvWriterOption::set_wrap_with_char::<&str>', [Ref(opt), sref(wrap)])
            r = it.call(CSV + 'write_writer::<VerifCollect>', [Ref(book), Ref(Box_(sink)), Ref(opt)])
        except Panic as e:
            self.fail(ctx, res, 'no-panic', str(e), info=info); return
        finally:
            it.stubs = {}; it.models = [m for m in it.models if m not in extra]
        if r.variant != 0: self.fail(ctx, res, 'returns-ok', 'Err on a working sink', info=info); return
        out = []
        for ch in sink.chunks:
            if not isinstance(ch, TextBytes): raise Unsupported('csv output is not the bytes of one String')
            out += ch.chars
        maxc = max(c for c, _ in cells); maxr = max(r for _, r in cells)
        recs = parse_csv(ctx, out, ord(wrap) if wrap else 34)
        info['out_len'] = len(out)
        if recs is None: self.fail(ctx, res, 'output-parses-as-csv', 'not parseable by an RFC 4180 parser', info=info); return
        shape = len(recs) == maxr and all(len(rc) == maxc for rc in recs)
        self.oblige(ctx, res, 'records==rows, fields==columns', shape, info=dict(info, records=len(recs), fields=[len(rc) for rc in recs]))
        if not shape: return
        for rr in range(1, maxr + 1):
            for cc in range(1, maxc + 1):
                want = list(cells.get((cc, rr), []))
                if trim: want = trimmed(ctx, want)
                got = recs[rr - 1][cc - 1]
                from harness.c17 import chars_eq
                self.oblige(ctx, res, 'field-text', chars_eq(got, want), info=dict(info, cell='%d,%d' % (cc, rr)))
    def case_of(self, v):
        m = v['model']; cells = {}
        for (c, r) in ((1, 1), (2, 1), (1, 2), (2, 2)):
            if m.get('present_%d_%d' % (c, r)): cells['%d,%d' % (c, r)] = ''.join(chr(m['t_%d_%d_%d' % (c, r, k)]) for k in range(m.get('len_%d_%d' % (c, r), 0)))
        removed = None
        if m.get('remove_one') and len(cells) >= 2: removed = sorted(cells, key=lambda k: tuple(int(x) for x in k.split(',')))[m.get('removed', 0)]
        c = {'cells': cells, 'removed': removed, 'do_trim': bool(m['do_trim']), 'wrap': ['', '"', "'"][m['wrap']], 'oblig': v['oblig']}
        c['show'] = dict(c); return c
    def confirm(self, case, profile):
        import csv, io
        spec = ';'.join('%s=%s' % (k, v.encode('utf-8').hex()) for k, v in sorted(case['cells'].items()))
        r = native.run_cases([['csv_export', spec, case['do_trim'], case['wrap'], case.get('removed') or '']], profile)[0]
        if case.get('removed'): case = dict(case, cells={k: v for k, v in case['cells'].items() if k != case['removed']})
        if r[0] != 'ok': return True, 'csv export of %r -> %r' % (case['show'], r)
        text = bytes.fromhex(r[1][0]).decode('utf-8', 'replace')
        maxc = max(int(k.split(',')[0]) for k in case['cells']); maxr = max(int(k.split(',')[1]) for k in case['cells'])
        want = [[(case['cells'].get('%d,%d' % (c, rr), '').strip() if case['do_trim'] else case['cells'].get('%d,%d' % (c, rr), '')) for c in range(1, maxc + 1)] for rr in range(1, maxr + 1)]
        try:
            got = list(csv.reader(io.StringIO(text, newline=''), delimiter=',', quotechar=case['wrap'] or '"', doublequote=True, strict=True, lineterminator='\r\n'))
        except csv.Error as e:
            return True, 'csv text %r is rejected by a CSV parser (%s); expected grid %r' % (text, e, want)
        ok = got == want and text.endswith('\r\n') and text.count('\r\n') >= maxr
        return (not ok), 'csv text %r parses to %r, expected %r' % (text, got, want)
def re_compile(p):
    import re
    return re.compile(p)
def trimmed(ctx, cs):
    from engine.models import is_ws
    cs = list(cs)
    B = lambda e: ctx.branch(e) if not isinstance(e, bool) else e
    while cs and B(is_ws(cs[0])): cs.pop(0)
    while cs and B(is_ws(cs[-1])): cs.pop()
    return cs

def harnesses(tier):
    if tier == 'quick': return [CsvGrid(tier)]
    return [CsvGrid(tier), CsvGrid(tier, maxcells=3, maxlen=1, name='grid.3cells'), CsvGrid(tier, maxcells=1, maxlen=4, name='grid.long_text')]
OPTIONS = {'want_smir': True}
