"""Formula skeletons: concrete text with reference slots that are filled by an oracle-side printer from symbolic
(column, row, $column, $row).  Used by the translation (C09) and insert/remove (C08) harnesses."""
import z3
from engine.core import *
from harness.c17 import MAXC, MAXR, sym_coord, coord_str, letters_of, chars_eq

class Slot:
    """kind: 'cell' (A1), 'col' (A), 'row' (1)"""
    def __init__(self, idx, kind='cell', sheet=None): self.idx, self.kind, self.sheet = idx, kind, sheet
class Skeleton:
    """pieces: str | Slot.  A reference token = maximal group Slot[:Slot]; `sheet` of a slot = qualifier sheet name of its token
    ('' = unqualified)"""
    def __init__(self, name, pieces, well='ok'): self.name, self.pieces = name, pieces
    def slots(self): return [p for p in self.pieces if isinstance(p, Slot)]

def R(i, sheet=''): return Slot(i, 'cell', sheet)
def C(i, sheet=''): return Slot(i, 'col', sheet)
def W(i, sheet=''): return Slot(i, 'row', sheet)

# qualifier text -> sheet name it designates
SKELETONS = [
    Skeleton('ref', [R(0)]),
    Skeleton('sum-range-plus', ['SUM(', R(0), ':', R(1), ')+', R(2)]),
    Skeleton('other-sheet', ['Other!', R(0, 'Other'), '*2']),
    Skeleton('own-sheet-qualified', ['Data!', R(0, 'Data'), '-1']),
    Skeleton('quoted-sheet', ["'My Sheet'!", R(0, 'My Sheet'), '&"A1"']),
    Skeleton('quoted-apostrophe', ["'it''s'!", R(0, "it's"), ':', R(1, "it's")]),
    Skeleton('if-error-literal', ['IF(', R(0), '>=1,"B2",#N/A)']),
    Skeleton('intersection', [R(0), ':', R(1), ' ', R(2), ':', R(3)]),
    Skeleton('union-array', ['SUM((', R(0), ',', R(1), '),{1,2;3,4})']),
    Skeleton('percent-neg', ['-', R(0), '%+', R(1), '^2']),
    Skeleton('whole-columns', ['SUM(', C(0), ':', C(1), ')']),
    Skeleton('whole-rows', ['SUM(', W(0), ':', W(1), ')']),
    Skeleton('function-name-like-ref', ['LOG10(', R(0), ')+A1B']),
]
def by_name(n): return next(s for s in SKELETONS if s.name == n)

class Filled:
    """a skeleton instantiated on one path"""
    def __init__(self, ctx, sk, dom_c, dom_r, locks='symbolic', tag=''):
        self.sk = sk; self.vals = {}
        for s in sk.slots():
            if s.idx in self.vals: continue
            c = ctx.sym_int('%sc%d' % (tag, s.idx), dom_c[0], dom_c[1]) if s.kind != 'row' else None
            r = ctx.sym_int('%sr%d' % (tag, s.idx), dom_r[0], dom_r[1]) if s.kind != 'col' else None
            # lock flags: slot 0 takes all four combinations, slot 1 none/both, further slots are relative
            # (with locks == 'all' every slot takes all four)
            lc = lr = False
            if locks == 'all' or (locks == 'symbolic' and s.idx == 0):
                lc = ctx.branch(ctx.sym_bool('%slc%d' % (tag, s.idx))) if c is not None else False
                lr = ctx.branch(ctx.sym_bool('%slr%d' % (tag, s.idx))) if r is not None else False
            elif locks == 'symbolic' and s.idx == 1:
                both = ctx.branch(ctx.sym_bool('%slc%d' % (tag, s.idx)))
                lc, lr = (both and c is not None), (both and r is not None)
            self.vals[s.idx] = [c, r, lc, lr]
    def text(self, ctx, vals=None, tag='t'):
        vals = vals or self.vals; out = []
        for p in self.sk.pieces:
            if isinstance(p, str): out += [ord(ch) for ch in p]
            else:
                c, r, lc, lr = vals[p.idx]
                out += sym_coord(ctx, c, r, lc, lr, '%s%d' % (tag, p.idx))
        return out
    def tokens(self):
        """reference tokens: list of lists of slots (a range groups its two corners), with piece index spans"""
        if hasattr(self, '_toks'): return self._toks
        toks, cur = [], None
        ps = self.sk.pieces
        for i, p in enumerate(ps):
            if isinstance(p, Slot):
                if cur is not None and i >= 2 and ps[i - 1] == ':' and isinstance(ps[i - 2], Slot): cur.append(p)
                else: cur = [p]; toks.append(cur)
        self._toks = toks
        return toks

def concrete_text(sk, vals):
    out = ''
    for p in sk.pieces:
        if isinstance(p, str): out += p
        else:
            c, r, lc, lr = vals[p.idx]
            out += ('$' if lc else '') + (letters_of(c) if c is not None else '') + ('$' if lr else '') + (str(r) if r is not None else '')
    return out
def model_vals(sk, m, tag=''):
    vals = {}
    for s in sk.slots():
        lc = bool(m.get('%slc%d' % (tag, s.idx), False)); lr = bool(m.get('%slr%d' % (tag, s.idx), lc if s.idx == 1 else False))
        c = m.get('%sc%d' % (tag, s.idx)); r = m.get('%sr%d' % (tag, s.idx))
        vals[s.idx] = [c, r, lc and c is not None, lr and r is not None]
    return vals
