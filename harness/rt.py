"""Generic write -> read -> write round trip of one serialisable struct through its real `write_to` and `set_attributes`
(XML by contract model): what the getters return is unchanged, and the second generation of XML equals the first."""
import re
import z3
from engine.core import *
from engine.check import Harness, concrete
from engine import native, xmlmodel
from harness.c17 import sref, iref, chars_eq

def same(ctx, a, b):
    """structural equality of two interpreter values -> bool or z3 expression"""
    a, b = deref_all(a), deref_all(b)
    if isinstance(a, SStr) or isinstance(b, SStr):
        if not (isinstance(a, SStr) and isinstance(b, SStr)) or len(a.chars) != len(b.chars): return False
        return chars_eq(a.chars, b.chars) if a.chars else True
    if isinstance(a, Adt) or isinstance(b, Adt):
        if not (isinstance(a, Adt) and isinstance(b, Adt)) or a.variant != b.variant or len(a.fields) != len(b.fields): return False
        return conj([same(ctx, x, y) for x, y in zip(a.fields, b.fields)])
    if isinstance(a, list) or isinstance(b, list):
        if not (isinstance(a, list) and isinstance(b, list)) or len(a) != len(b): return False
        return conj([same(ctx, x, y) for x, y in zip(a, b)])
    if isinstance(a, float) or isinstance(b, float): return a == b
    r = a == b
    return bool(r) if isinstance(r, bool) else r
def conj(cs):
    if any(c is False for c in cs): return False
    cs = [c for c in cs if c is not True]
    return z3.And(*cs) if cs else True

def events_equal(ctx, e1, e2):
    order = xmlmodel.event_order()
    if len(e1) != len(e2): return False
    cs = []
    for a, b in zip(e1, e2):
        na = a.variant if isinstance(a.variant, str) else order[a.variant]; nb = b.variant if isinstance(b.variant, str) else order[b.variant]
        if na != nb: return False
        pa = deref_all(a.fields[0]) if a.fields else None; pb = deref_all(b.fields[0]) if b.fields else None
        if isinstance(pa, xmlmodel.Elem):
            if pa.name != pb.name or len(pa.attrs) != len(pb.attrs): return False
            for (k1, v1), (k2, v2) in zip(pa.attrs, pb.attrs):
                if k1 != k2 or len(v1) != len(v2): return False
                cs.append(chars_eq(v1, v2) if v1 else True)
        elif isinstance(pa, xmlmodel.TextObj):
            if len(pa.raw) != len(pb.raw): return False
            cs.append(chars_eq(pa.raw, pb.raw) if pa.raw else True)
        elif isinstance(pa, xmlmodel.EndObj):
            if pa.name != pb.name: return False
    return conj(cs)

class StructTrip(Harness):
    classes = {}
    def __init__(self, tier, spec):
        self.spec = spec; self.name = spec['name'] + '.write_read'; self.property_id = spec['prop']
        self.ty = spec['type']; self.tier = tier
        self.maxn = spec.get('maxn', 2 if tier == 'quick' else 3)
        self.entry = [self.ty + '::' + spec.get('write', 'write_to'), self.ty + '::set_attributes']
        fl = ', '.join('%s (%s)' % (f[0], f[2][0]) for f in spec['fields'])
        self.doc = 'a %s with every listed field independently left unset or set to a symbolic value, written by the real %s::%s into an XML event stream and read back by the real %s::set_attributes: every getter returns what it returned before, also after a second write/read generation, and the second generation is a fixed point (written again after another reload it is the same XML). Fields: %s' % (self.ty.split('::')[-1], self.ty.split('::')[-1], spec.get('write', 'write_to'), self.ty.split('::')[-1], fl)
        self.bounds = {'fields': {f[0]: list(f[2]) for f in spec['fields']}, 'text_chars': [0, self.maxn], 'xml': 'quick-xml by contract model (escape on write, raw attribute values, unescape, text trimming)'}
    def setup(self, it):
        from engine import cryptomodel as cm
        xmlmodel.install(it); xmlmodel.install_events(it); cm.install(it); cm.install_digests(it)
    def value(self, it, ctx, tag, kind):
        k = kind[0]
        if k == 'bool': return ctx.branch(ctx.sym_bool(tag))
        if k == 'u32': return ctx.sym_int(tag, kind[1], kind[2])
        if k == 'f64':
            i = ctx.sym_int(tag, 0, len(kind[1]) - 1); return float(kind[1][next(j for j in range(len(kind[1])) if ctx.branch(i == j))])
        if k == 'enum':
            vs = it.enums[kind[1]]; i = ctx.sym_int(tag, 0, len(vs) - 1)
            return Adt(next(j for j in range(len(vs)) if ctx.branch(i == j)), [], kind[1])
        if k == 'argb_color':
            i = ctx.sym_int(tag, 0, len(kind[1]) - 1); txt = kind[1][next(j for j in range(len(kind[1])) if ctx.branch(i == j))]
            col = Box_(it.call('<structs::color::Color as std::default::Default>::default', []))
            it.call('structs::color::Color::set_argb::<&str>', [Ref(col), sref(txt)])
            return col.v
        if k == 'argb_color':
            i = ctx.sym_int(tag, 0, len(kind[1]) - 1); txt = kind[1][next(j for j in range(len(kind[1])) if ctx.branch(i == j))]
            col = Box_(it.call('<structs::color::Color as std::default::Default>::default', []))
            it.call('structs::color::Color::set_argb::<&str>', [Ref(col), sref(txt)])
            return col.v
        if k == 'strchoice':
            i = ctx.sym_int(tag, 0, len(kind[1]) - 1); return S(kind[1][next(j for j in range(len(kind[1])) if ctx.branch(i == j))])
        if k == 'str':
            n = ctx.sym_int(tag + '_len', 0, self.maxn); n = next(j for j in range(self.maxn + 1) if ctx.branch(n == j))
            cs = [ctx.sym_int('%s_%d' % (tag, j), 32, 0xE9) for j in range(n)]
            alpha = kind[1] if len(kind) > 1 else [97, 38, 60, 34, 32, 0xE9]
            for c in cs: ctx.define(z3.Or(*[c == a for a in alpha]))
            return SStr(cs)
        raise Unsupported('value kind ' + k)
    def arg(self, v):
        return sref(v) if isinstance(v, SStr) else v
    def full(self, name):
        return name if '::' in name else self.ty + '::' + name
    def apply(self, it, obj, setter, v):
        """setter = 'set_x' or a chain 'accessor_mut/.../Type::set_x' (each accessor returns a &mut to a nested object)"""
        setter = setter.split('#')[0]          # 'add_x#2': the same setter listed a second time
        steps = setter.split('/'); cur = Ref(obj)
        for st in steps[:-1]: cur = it.call(self.full(st), [cur])
        last = self.full(steps[-1])
        gen = self.spec.get('setter_generics', {}).get(setter, '')
        it.call(last + gen, [cur, v])
    def getters(self, it, obj):
        out = []
        for f in self.spec['fields']:
            cur = Ref(obj)
            for st in f[1].split('/'): cur = it.call(self.full(st), [cur])
            out.append(deref_all(cur))
        return out
    def run(self, it, ctx, res):
        from engine import cryptomodel as cm
        it.world = cm.World()
        T = self.ty; sp = self.spec
        it.stubs = dict(sp.get('stubs', {}))
        info = {'set': []}
        try:
            obj = Box_(it.call('<%s as std::default::Default>::default' % T, []))
            fields = sp['fields']
            if len(fields) > 5:
                # wide structs: at most two fields are set at a time (all pairs), every other field stays unset
                n = len(fields)
                i = ctx.sym_int('field_i', 0, n); i = next(k for k in range(n + 1) if ctx.branch(i == k))
                j = ctx.sym_int('field_j', 0, n); j = next(k for k in range(n + 1) if ctx.branch(j == k))
                active = sorted({k for k in (i, j) if k < n})
                if i < n and j < n and j <= i: return 'duplicate pair'
            else:
                active = [k for k, f in enumerate(fields) if ctx.branch(ctx.sym_bool('set_' + f[0]))]
            chosen = {}
            for k in active:
                f = fields[k]
                v = self.value(it, ctx, 'v_' + f[0], f[2]); info['set'].append(f[0])
                chosen[f[0]] = v.variant if isinstance(v, Adt) and f[2][0] == 'enum' else v
                if sp.get('skip') and sp['skip'](chosen): return 'outside the documented use'
                self.apply(it, obj, f[0], self.arg(v))
            before = self.getters(it, obj)
            rec = xmlmodel.Recorder()
            env = {}
            def tok(a, empty=None):
                if a == '$rid': return Ref(Box_(1))
                if a == '$none': return NONE()
                if a == '$empty': return empty
                if a == '$true': return True
                if a == '$spans': return sref('1:1')
                if a == '$hmap':
                    from engine import containers
                    return Ref(Box_(containers.HMap()))
                if isinstance(a, str) and a.startswith('$new:'):
                    if a not in env: env[a] = Box_(it.call('<%s as std::default::Default>::default' % a[5:], []))
                    return Ref(env[a])
                return a
            wargs = lambda: [tok(a) for a in sp.get('write_args', [])]
            it.call(T + '::' + sp.get('write', 'write_to'), [Ref(obj), Ref(Box_(rec))] + wargs())
            evs = rec.events
            info['events'] = len(evs)
            back = Box_(it.call('<%s as std::default::Default>::default' % T, []))
            if evs:
                first = evs[0]; empty = (first.variant if isinstance(first.variant, str) else xmlmodel.event_order()[first.variant]) == 'Empty'
                rd = xmlmodel.XmlReader(evs[1:], trim=True)
                extra = [tok(a, empty) for a in sp.get('read_args', [])]
                it.call(T + '::set_attributes::<&[u8]>', [Ref(back), Ref(Box_(rd)), Ref(Box_(first.fields[0]))] + extra)
            after = self.getters(it, back)
            # second generation: the reloaded object written again, reloaded again and written a third time
            rec2 = xmlmodel.Recorder()
            it.call(T + '::' + sp.get('write', 'write_to'), [Ref(back), Ref(Box_(rec2))] + wargs())
            back2 = Box_(it.call('<%s as std::default::Default>::default' % T, []))
            if rec2.events:
                first2 = rec2.events[0]; empty2 = (first2.variant if isinstance(first2.variant, str) else xmlmodel.event_order()[first2.variant]) == 'Empty'
                rd2 = xmlmodel.XmlReader(rec2.events[1:], trim=True)
                it.call(T + '::set_attributes::<&[u8]>', [Ref(back2), Ref(Box_(rd2)), Ref(Box_(first2.fields[0]))] + [tok(a, empty2) for a in sp.get('read_args', [])])
            after2 = self.getters(it, back2)
            rec3 = xmlmodel.Recorder()
            it.call(T + '::' + sp.get('write', 'write_to'), [Ref(back2), Ref(Box_(rec3))] + wargs())
        except Panic as e:
            self.fail(ctx, res, 'no-panic', str(e), info=info); return
        finally:
            it.stubs = {}
        for f, b, a in zip(sp['fields'], before, after):
            self.oblige(ctx, res, 'same-' + f[1], same(ctx, a, b), info=dict(info, field=f[1]))
        for f, b, a in zip(sp['fields'], after, after2):
            self.oblige(ctx, res, 'second-generation-same-' + f[1], same(ctx, a, b), info=dict(info, field=f[1]))
        # the second generation is a fixed point: written again after another reload it is the same XML
        # (the first generation may still hold what the writer emits for an unset-but-touched field, e.g. an empty element)
        self.oblige(ctx, res, 'second-generation-is-a-fixed-point', events_equal(ctx, rec2.events, rec3.events), info=dict(info, gen2_events=len(rec2.events), gen3_events=len(rec3.events)))
    def case_of(self, v):
        m = v['model']; vals = {}
        fields = self.spec['fields']
        if len(fields) > 5: chosen = {fields[k][0] for k in (m.get('field_i', len(fields)), m.get('field_j', len(fields))) if k < len(fields)}
        else: chosen = {f[0] for f in fields if m.get('set_' + f[0])}
        for f in fields:
            if f[0] not in chosen: continue
            k = f[2][0]; tag = 'v_' + f[0]
            if k in ('strchoice', 'argb_color'): vals[f[0]] = f[2][1][m.get(tag, 0)]
            elif k == 'str': vals[f[0]] = ''.join(chr(m.get('%s_%d' % (tag, j), 97)) for j in range(m.get(tag + '_len', 0)))
            elif k == 'f64': vals[f[0]] = f[2][1][m.get(tag, 0)]
            elif k == 'bool': vals[f[0]] = bool(m.get(tag))
            else: vals[f[0]] = m.get(tag, 0)
        c = {'struct': self.spec['name'], 'values': vals, 'oblig': v['oblig']}; c['show'] = dict(c); return c
    def confirm(self, case, profile):
        spec = ';'.join('%s=%s' % (k, (v.encode('utf-8').hex() if isinstance(v, str) else (int(v) if isinstance(v, bool) else v))) for k, v in sorted(case['values'].items()))
        r = native.run_cases([['struct_roundtrip', case['struct'], spec]], profile, timeout_each=60)[0]
        if r[0] != 'ok':
            msg = str(r[1])
            if r[0] == 'panic' and (msg.startswith('struct ') or msg.startswith('setter ') or 'unknown case' in msg): return False, 'no native scenario for %s: %s' % (case['struct'], msg)
            return True, '%s %r -> %r' % (case['struct'], case['values'], r)
        before, after = native.unhx(r[1][0]), native.unhx(r[1][1])
        return before != after, '%s set to %r: before save %r, after reload %r' % (case['struct'], case['values'], before, after)

# ---------------------------------------------------------------- struct specifications
SPECS = {
 'alignment': {'name': 'alignment', 'prop': 'C05', 'type': 'structs::alignment::Alignment', 'fields': [
    ('set_horizontal', 'get_horizontal', ('enum', 'HorizontalAlignmentValues')), ('set_vertical', 'get_vertical', ('enum', 'VerticalAlignmentValues')),
    ('set_wrap_text', 'get_wrap_text', ('bool',)), ('set_text_rotation', 'get_text_rotation', ('u32', 0, 255))]},
 'protection': {'name': 'protection', 'prop': 'C05', 'type': 'structs::protection::Protection', 'fields': [
    ('set_locked', 'get_locked', ('bool',)), ('set_hidden', 'get_hidden', ('bool',))]},
 'page_margins': {'name': 'page_margins', 'prop': 'C06', 'type': 'structs::page_margins::PageMargins', 'fields': [
    (s, s.replace('set_', 'get_'), ('f64', [0.7, 0.75, 1.5])) for s in ('set_left', 'set_right', 'set_top', 'set_bottom', 'set_header', 'set_footer')]},
 'pane': {'name': 'pane', 'prop': 'C06', 'type': 'structs::pane::Pane', 'fields': [
    ('set_horizontal_split', 'get_horizontal_split', ('f64', [1.0, 2.5])), ('set_vertical_split', 'get_vertical_split', ('f64', [1.0, 3.0])),
    ('set_active_pane', 'get_active_pane', ('enum', 'PaneValues')), ('set_state', 'get_state', ('enum', 'PaneStateValues'))]},
}
_SP = 'structs::sheet_protection::SheetProtection'
SPECS['sheet_protection'] = {'name': 'sheet_protection', 'prop': 'C06', 'type': _SP, 'setter_generics': {'set_algorithm_name': '::<&str>', 'set_hash_value': '::<&str>', 'set_salt_value': '::<&str>'}, 'fields':
    [('set_' + n, 'get_' + n, ('bool',)) for n in ('sheet', 'objects', 'delete_rows', 'insert_columns', 'delete_columns', 'insert_hyperlinks', 'auto_filter', 'scenarios', 'format_cells', 'format_columns', 'insert_rows', 'format_rows', 'pivot_tables', 'select_locked_cells', 'select_unlocked_cells', 'sort')]
    + [('set_algorithm_name', 'get_algorithm_name', ('str',)), ('set_hash_value', 'get_hash_value', ('str',)), ('set_salt_value', 'get_salt_value', ('str',)), ('set_spin_count', 'get_spin_count', ('u32', 0, 200000))]}
_DV = 'structs::data_validation::DataValidation'
SPECS['data_validation'] = {'name': 'data_validation', 'prop': 'C06', 'type': _DV, 'read_args': ['$empty'],
    'setter_generics': {k: '::<&str>' for k in ('set_prompt_title', 'set_error_title', 'set_error_message', 'set_prompt', 'set_formula1', 'set_formula2')}, 'fields': [
    ('set_type', 'get_type', ('enum', 'DataValidationValues')), ('set_operator', 'get_operator', ('enum', 'DataValidationOperatorValues')),
    ('set_allow_blank', 'get_allow_blank', ('bool',)), ('set_show_input_message', 'get_show_input_message', ('bool',)), ('set_show_error_message', 'get_show_error_message', ('bool',)),
    ('set_prompt_title', 'get_prompt_title', ('str',)), ('set_error_title', 'get_error_title', ('str',)), ('set_error_message', 'get_error_message', ('str',)), ('set_prompt', 'get_prompt', ('str',)),
    ('set_formula1', 'get_formula1', ('str',)), ('set_formula2', 'get_formula2', ('str',))]}
_F = 'structs::font::Font'
SPECS['font'] = {'name': 'font', 'prop': 'C05', 'type': _F, 'write': 'write_to_font', 'setter_generics': {'set_name': '::<&str>', 'set_underline': '::<&str>', 'set_scheme': '::<&str>'}, 'fields': [
    ('set_name', 'get_name', ('str',)), ('set_size', 'get_size', ('f64', [8.0, 11.0, 10.5])), ('set_bold', 'get_bold', ('bool',)), ('set_italic', 'get_italic', ('bool',)),
    ('set_strikethrough', 'get_strikethrough', ('bool',)), ('set_family', 'get_family', ('u32', 0, 14)), ('set_charset', 'get_charset', ('u32', 0, 255)),
    ('set_underline', 'get_underline', ('strchoice', ['single', 'double', 'singleAccounting', 'doubleAccounting', 'none'])), ('set_scheme', 'get_scheme', ('strchoice', ['major', 'minor', 'none']))]}
SPECS['header_footer'] = {'name': 'header_footer', 'prop': 'C06', 'type': 'structs::header_footer::HeaderFooter',
    'setter_generics': {'get_odd_header_mut/structs::odd_header::OddHeader::set_value': '::<&str>', 'get_odd_footer_mut/structs::odd_footer::OddFooter::set_value': '::<&str>'}, 'fields': [
    ('get_odd_header_mut/structs::odd_header::OddHeader::set_value', 'get_odd_header/structs::odd_header::OddHeader::get_value', ('str', [97, 38, 60, 34, 32, 0xE9, 10])),
    ('get_odd_footer_mut/structs::odd_footer::OddFooter::set_value', 'get_odd_footer/structs::odd_footer::OddFooter::get_value', ('str', [97, 38, 60, 34, 32, 0xE9, 10]))]}
SPECS['page_setup'] = {'name': 'page_setup', 'prop': 'C06', 'type': 'structs::page_setup::PageSetup', 'write_args': ['$rid'], 'read_args': ['$none'], 'fields': [
    ('set_paper_size', 'get_paper_size', ('u32', 0, 120)), ('set_orientation', 'get_orientation', ('enum', 'OrientationValues')), ('set_scale', 'get_scale', ('u32', 10, 400)),
    ('set_fit_to_height', 'get_fit_to_height', ('u32', 0, 100)), ('set_fit_to_width', 'get_fit_to_width', ('u32', 0, 100)), ('set_horizontal_dpi', 'get_horizontal_dpi', ('u32', 0, 1200)), ('set_vertical_dpi', 'get_vertical_dpi', ('u32', 0, 1200))]}
_B = 'structs::border::Border'
SPECS['borders'] = {'name': 'borders', 'prop': 'C05', 'type': 'structs::borders::Borders', 'fields':
    [('get_%s_mut/%s::set_style' % (e, _B), 'get_%s/%s::get_style' % (e, _B), ('enum', 'BorderStyleValues')) for e in ('left', 'right', 'top', 'bottom', 'diagonal')]
    + [('set_diagonal_up', 'get_diagonal_up', ('bool',)), ('set_diagonal_down', 'get_diagonal_down', ('bool',))]}
_WP = 'structs::workbook_protection::WorkbookProtection'
_wps = ['workbook_algorithm_name', 'workbook_hash_value', 'workbook_salt_value', 'workbook_password_raw', 'revisions_algorithm_name', 'revisions_hash_value', 'revisions_salt_value', 'revisions_password_raw']
SPECS['workbook_protection'] = {'name': 'workbook_protection', 'prop': 'C06', 'type': _WP, 'setter_generics': {'set_' + n: '::<&str>' for n in _wps}, 'fields':
    [('set_' + n, 'get_' + n, ('str',)) for n in _wps] + [('set_workbook_spin_count', 'get_workbook_spin_count', ('u32', 0, 200000)), ('set_revisions_spin_count', 'get_revisions_spin_count', ('u32', 0, 200000))]
    + [('set_' + n, 'get_' + n, ('bool',)) for n in ('lock_revision', 'lock_structure', 'lock_windows')]}
_PF = 'structs::pattern_fill::PatternFill'; _CO = 'structs::color::Color'
# colours first, pattern type last: the reader applies them in the opposite order (patternType attribute, then the colour
# elements through the same setters), so a setter that touches the pattern type shows up as a difference.
# Not explored: an explicit pattern type None together with a foreground colour, which the library documents as becoming Solid.
SPECS['pattern_fill'] = {'name': 'pattern_fill', 'prop': 'C05', 'type': _PF, 'read_args': ['$empty'],
    'skip': lambda vals: 'set_foreground_color' in vals and vals.get('set_pattern_type') == 17, 'fields': [
    ('set_foreground_color', 'get_foreground_color', ('argb_color', ['FFFF0000', 'FF00FF00', '80000000'])),
    ('set_background_color', 'get_background_color', ('argb_color', ['FF0000FF', 'FFFFFFFF'])),
    ('set_pattern_type', 'get_pattern_type', ('enum', 'PatternValues'))]}
SPECS['color'] = {'name': 'color', 'prop': 'C05', 'type': _CO, 'write': 'write_to_color', 'read_args': ['$empty'], 'setter_generics': {'set_argb': '::<&str>'}, 'fields': [
    ('set_argb', 'get_argb', ('strchoice', ['FFFF0000', 'FF123456', '00000000'])), ('set_indexed', 'get_indexed', ('u32', 0, 65)), ('set_theme_index', 'get_theme_index', ('u32', 0, 11)),
    ('set_tint', 'get_tint', ('f64', [0.5, -0.25, 0.0]))]}
SPECS['sheet_view'] = {'name': 'sheet_view', 'prop': 'C06', 'type': 'structs::sheet_view::SheetView', 'read_args': ['$empty'], 'setter_generics': {'set_top_left_cell': '::<&str>'}, 'fields': [
    ('set_show_grid_lines', 'get_show_grid_lines', ('bool',)), ('set_tab_selected', 'get_tab_selected', ('bool',)), ('set_workbook_view_id', 'get_workbook_view_id', ('u32', 0, 3)),
    ('set_view', 'get_view', ('enum', 'SheetViewValues')), ('set_zoom_scale', 'get_zoom_scale', ('u32', 10, 400)), ('set_zoom_scale_normal', 'get_zoom_scale_normal', ('u32', 10, 400)),
    ('set_top_left_cell', 'get_top_left_cell', ('strchoice', ['B2', 'XFD1048576', 'A1']))]}
SPECS['row'] = {'name': 'row', 'prop': 'C05', 'type': 'structs::row::Row', 'stubs': {'structs::stylesheet::Stylesheet::set_style': lambda it_, st, style: 0},
    'write_args': ['$new:structs::stylesheet::Stylesheet', '$spans', '$true'],
    'read_args': ['$new:structs::cells::Cells', '$new:structs::shared_string_table::SharedStringTable', '$new:structs::stylesheet::Stylesheet', '$hmap', '$empty'], 'fields': [
    ('set_row_num', 'get_row_num', ('u32', 1, 1048576)), ('set_height', 'get_height', ('f64', [15.0, 12.75, 409.5])), ('set_descent', 'get_descent', ('f64', [0.25, 0.3])),
    ('set_thick_bot', 'get_thick_bot', ('bool',)), ('set_custom_height', 'get_custom_height', ('bool',)), ('set_hidden', 'get_hidden', ('bool',))]}
SPECS['defined_name'] = {'name': 'defined_name', 'prop': 'C06', 'type': 'structs::defined_name::DefinedName', 'setter_generics': {'set_name': '::<&str>', 'set_address': '::<&str>'}, 'fields': [
    ('set_name', 'get_name', ('str', [97, 95, 46, 0xE9, 66])), ('set_address', 'get_address', ('strchoice', ['Sheet1!$A$1', "'My Sheet'!$A$1:$B$2", 'Sheet1!$A$1,Sheet1!$C$3', 'Sheet1!$1:$2'])),
    ('set_local_sheet_id', 'get_local_sheet_id', ('u32', 0, 10)), ('set_hidden', 'get_hidden', ('bool',))]}
SPECS['sheet_format_properties'] = {'name': 'sheet_format_properties', 'prop': 'C05', 'type': 'structs::sheet_format_properties::SheetFormatProperties', 'fields': [
    ('set_base_column_width', 'get_base_column_width', ('u32', 0, 255)), ('set_custom_height', 'get_custom_height', ('bool',)), ('set_default_column_width', 'get_default_column_width', ('f64', [8.38, 9.0, 12.5])),
    ('set_default_row_height', 'get_default_row_height', ('f64', [13.5, 15.0, 18.75])), ('set_dy_descent', 'get_dy_descent', ('f64', [0.15, 0.25])),
    ('set_outline_level_column', 'get_outline_level_column', ('u32', 0, 7)), ('set_outline_level_row', 'get_outline_level_row', ('u32', 0, 7)),
    ('set_thick_bottom', 'get_thick_bottom', ('bool',)), ('set_thick_top', 'get_thick_top', ('bool',))]}
SPECS['print_options'] = {'name': 'print_options', 'prop': 'C06', 'type': 'structs::print_options::PrintOptions', 'fields': [
    ('set_horizontal_centered', 'get_horizontal_centered', ('bool',)), ('set_vertical_centered', 'get_vertical_centered', ('bool',))]}
_RANGES = ['A1:B2', 'C3:D4', 'B2:C3', 'XFD1048575:XFD1048576', 'A:B', '1:2']
SPECS['merge_cells'] = {'name': 'merge_cells', 'prop': 'C06', 'type': 'structs::merge_cells::MergeCells', 'setter_generics': {'add_range': '::<&str>'}, 'fields': [
    ('add_range', 'get_range_collection', ('strchoice', _RANGES)), ('add_range#2', 'get_range_collection', ('strchoice', _RANGES))]}
_CF = 'structs::conditional_formatting_rule::ConditionalFormattingRule'
SPECS['cf_rule'] = {'name': 'cf_rule', 'prop': 'C06', 'type': _CF, 'setter_generics': {'set_text': '::<&str>'},
    'write_args': ['$new:structs::differential_formats::DifferentialFormats'], 'read_args': ['$new:structs::differential_formats::DifferentialFormats', '$empty'], 'fields': [
    ('set_type', 'get_type', ('enum', 'ConditionalFormatValues')), ('set_operator', 'get_operator', ('enum', 'ConditionalFormattingOperatorValues')), ('set_text', 'get_text', ('str',)),
    ('set_priority', 'get_priority', ('u32', 1, 99)), ('set_percent', 'get_percent', ('bool',)), ('set_bottom', 'get_bottom', ('bool',)), ('set_rank', 'get_rank', ('u32', 0, 1000)),
    ('set_stop_if_true', 'get_stop_if_true', ('bool',)), ('set_std_dev', 'get_std_dev', ('u32', 0, 3)), ('set_above_average', 'get_above_average', ('bool',)), ('set_equal_average', 'get_equal_average', ('bool',)),
    ('set_time_period', 'get_time_period', ('enum', 'TimePeriodValues'))]}
def harnesses_for(prop, tier):
    return [StructTrip(tier, sp) for sp in SPECS.values() if sp['prop'] == prop]
