//! Kani harnesses (engine K): bit-precise checks of the date kernels against an independent civil-calendar oracle.
#![allow(dead_code)]

/// days from 1970-01-01 of a proleptic Gregorian date (Howard Hinnant's algorithm) — the oracle
fn days_from_civil(y: i64, m: i64, d: i64) -> i64 {
    let y = if m <= 2 { y - 1 } else { y };
    let era = if y >= 0 { y } else { y - 399 } / 400;
    let yoe = y - era * 400;
    let mp = (m + 9) % 12;
    let doy = (153 * mp + 2) / 5 + d - 1;
    let doe = yoe * 365 + yoe / 4 - yoe / 100 + doy;
    era * 146097 + doe - 719468
}
fn is_leap(y: i32) -> bool {
    (y % 4 == 0 && y % 100 != 0) || y % 400 == 0
}
fn days_in_month(y: i32, m: i32) -> i32 {
    match m {
        1 | 3 | 5 | 7 | 8 | 10 | 12 => 31,
        4 | 6 | 9 | 11 => 30,
        _ => {
            if is_leap(y) {
                29
            } else {
                28
            }
        }
    }
}
/// Excel 1900 date system: day count from 1899-12-30 from 1900-03-01 on, one less before (the historical leap day)
fn expected_serial_day(y: i32, m: i32, d: i32) -> i64 {
    let n = days_from_civil(y as i64, m as i64, d as i64) + 25569;
    if (y, m) < (1900, 3) {
        n - 1
    } else {
        n
    }
}

#[cfg(kani)]
mod proofs {
    use super::*;
    use chrono::{Datelike, Timelike};
    use umya_spreadsheet::helper::date::*;

    /// every calendar date of the years lo..=hi at midnight: serial == oracle
    macro_rules! to_serial_date {
        ($name:ident, $lo:expr, $hi:expr) => {
            #[kani::proof]
            #[kani::unwind(12)]
            fn $name() {
                let y: i32 = kani::any();
                let m: i32 = kani::any();
                let d: i32 = kani::any();
                kani::assume(y >= $lo && y <= $hi && m >= 1 && m <= 12 && d >= 1 && d <= days_in_month(y, m));
                let s = convert_date(y, m, d, 0, 0, 0);
                assert!(s == expected_serial_day(y, m, d) as f64);
                kani::cover!(y == $lo && m == 2 && d == 28);
            }
        };
    }
    /// strictly increasing in the second of the day, inside the day
    macro_rules! to_serial_monotone {
        ($name:ident, $lo:expr, $hi:expr) => {
            #[kani::proof]
            #[kani::unwind(12)]
            fn $name() {
                let y: i32 = kani::any();
                let m: i32 = kani::any();
                let d: i32 = kani::any();
                kani::assume(y >= $lo && y <= $hi && m >= 1 && m <= 12 && d >= 1 && d <= days_in_month(y, m));
                let h: i32 = kani::any();
                let mi: i32 = kani::any();
                let s: i32 = kani::any();
                kani::assume(h >= 0 && h < 24 && mi >= 0 && mi < 60 && s >= 0 && s < 60);
                let a = convert_date(y, m, d, h, mi, s);
                let day = expected_serial_day(y, m, d) as f64;
                assert!(a >= day && a < day + 1.0);
                if s < 59 {
                    let b = convert_date(y, m, d, h, mi, s + 1);
                    assert!(a < b);
                }
                kani::cover!(h == 23 && mi == 59 && s == 59);
            }
        };
    }
    /// date + time of day -> serial -> date + time of day, for one day and the hours lo..=hi (every minute and second)
    macro_rules! roundtrip_time {
        ($name:ident, $y:expr, $m:expr, $d:expr, $hlo:expr, $hhi:expr) => {
            #[kani::proof]
            #[kani::unwind(12)]
            fn $name() {
                let h: i32 = kani::any();
                let mi: i32 = kani::any();
                let s: i32 = kani::any();
                kani::assume(h >= $hlo && h <= $hhi && mi >= 0 && mi < 60 && s >= 0 && s < 60);
                let serial = convert_date($y, $m, $d, h, mi, s);
                let dt = excel_to_date_time_object(&serial, None);
                assert!(dt.year() == $y && dt.month() as i32 == $m && dt.day() as i32 == $d);
                assert!(dt.hour() as i32 == h && dt.minute() as i32 == mi && dt.second() as i32 == s);
                kani::cover!(h == $hhi && mi == 59 && s == 59);
            }
        };
    }
    /// full hours and the seconds around them, every hour of one day
    macro_rules! roundtrip_hour_edges {
        ($name:ident, $y:expr, $m:expr, $d:expr) => {
            #[kani::proof]
            #[kani::unwind(12)]
            fn $name() {
                let h: i32 = kani::any();
                let mi: i32 = kani::any();
                let s: i32 = kani::any();
                kani::assume(h >= 0 && h <= 23 && (mi == 0 || mi == 59) && (s == 0 || s == 1 || s == 59));
                let serial = convert_date($y, $m, $d, h, mi, s);
                let dt = excel_to_date_time_object(&serial, None);
                assert!(dt.year() == $y && dt.month() as i32 == $m && dt.day() as i32 == $d);
                assert!(dt.hour() as i32 == h && dt.minute() as i32 == mi && dt.second() as i32 == s);
                kani::cover!(h == 23 && mi == 59 && s == 59);
            }
        };
    }
    /// integer serial lo..=hi -> calendar date == oracle
    macro_rules! from_serial_date {
        ($name:ident, $lo:expr, $hi:expr) => {
            #[kani::proof]
            #[kani::unwind(12)]
            fn $name() {
                let n: i32 = kani::any();
                // serial 60 is the non-existent 1900-02-29 of the 1900 date system: no calendar date, no obligation
                kani::assume(n >= $lo && n <= $hi && n != 60);
                let dt = excel_to_date_time_object(&(n as f64), None);
                let back = days_from_civil(dt.year() as i64, dt.month() as i64, dt.day() as i64) + 25569;
                let exp = if n < 61 { n as i64 + 1 } else { n as i64 };
                assert!(back == exp);
                assert!(dt.hour() == 0 && dt.minute() == 0 && dt.second() == 0);
                kani::cover!(n == $hi);
            }
        };
    }

    include!("gen.rs");
}
