//! Independent MS-OFFCRYPTO agile decryptor (none of the crate's crypt helpers are used): used to confirm C14 cases natively.
use aes::cipher::{block_padding::NoPadding, BlockDecryptMut, KeyIvInit};
use base64::{engine::general_purpose::STANDARD, Engine as _};
use hmac::{Hmac, Mac};
use sha2::{Digest, Sha512};
use std::io::Read;

type Dec = cbc::Decryptor<aes::Aes256>;

fn h(parts: &[&[u8]]) -> Vec<u8> {
    let mut d = Sha512::new();
    for p in parts {
        d.update(p);
    }
    d.finalize().to_vec()
}
fn attr(xml: &str, element: &str, name: &str) -> Option<String> {
    let start = xml.find(&format!("<{}", element))?;
    let rest = &xml[start..];
    let end = rest.find('>')?;
    let tag = &rest[..end];
    let key = format!(" {}=\"", name);
    let i = tag.find(&key)? + key.len();
    let j = tag[i..].find('"')? + i;
    Some(tag[i..j].to_string())
}
fn b64(xml: &str, element: &str, name: &str) -> Vec<u8> {
    STANDARD.decode(attr(xml, element, name).unwrap_or_default()).unwrap_or_default()
}
fn derive(password: &str, salt: &[u8], spin: u32, block_key: &[u8]) -> Vec<u8> {
    let pw: Vec<u8> = password.encode_utf16().flat_map(|u| u.to_le_bytes()).collect();
    let mut k = h(&[salt, &pw]);
    for i in 0..spin {
        k = h(&[&i.to_le_bytes(), &k]);
    }
    h(&[&k, block_key])[..32].to_vec()
}
fn dec(key: &[u8], iv: &[u8], data: &[u8]) -> Option<Vec<u8>> {
    if data.len() % 16 != 0 {
        return None;
    }
    let mut buf = data.to_vec();
    let d = Dec::new_from_slices(key, &iv[..16]).ok()?;
    d.decrypt_padded_mut::<NoPadding>(&mut buf).ok()?;
    Some(buf)
}

/// -> (verifier ok, hmac ok, declared length, decrypted package)
pub fn decrypt(path: &std::path::Path, password: &str) -> Result<(bool, bool, u64, Vec<u8>, Vec<Vec<u8>>), String> {
    let mut comp = cfb::open(path).map_err(|e| e.to_string())?;
    let mut info = Vec::new();
    comp.open_stream("EncryptionInfo").map_err(|e| e.to_string())?.read_to_end(&mut info).map_err(|e| e.to_string())?;
    let mut pkg = Vec::new();
    comp.open_stream("EncryptedPackage").map_err(|e| e.to_string())?.read_to_end(&mut pkg).map_err(|e| e.to_string())?;
    if info.len() < 8 || info[..8] != [4, 0, 4, 0, 0x40, 0, 0, 0] {
        return Err("not an agile EncryptionInfo".to_string());
    }
    let xml = String::from_utf8_lossy(&info[8..]).to_string();
    let pkg_salt = b64(&xml, "keyData", "saltValue");
    let key_salt = b64(&xml, "p:encryptedKey", "saltValue");
    let spin: u32 = attr(&xml, "p:encryptedKey", "spinCount").unwrap_or_default().parse().map_err(|_| "spinCount")?;
    let ver_in = dec(&derive(password, &key_salt, spin, &[0xfe, 0xa7, 0xd2, 0x76, 0x3b, 0x4b, 0x9e, 0x79]), &key_salt, &b64(&xml, "p:encryptedKey", "encryptedVerifierHashInput")).ok_or("verifier input")?;
    let ver_val = dec(&derive(password, &key_salt, spin, &[0xd7, 0xaa, 0x0f, 0x6d, 0x30, 0x61, 0x34, 0x4e]), &key_salt, &b64(&xml, "p:encryptedKey", "encryptedVerifierHashValue")).ok_or("verifier value")?;
    let verifier_ok = ver_val.len() >= 64 && h(&[&ver_in[..16.min(ver_in.len())]])[..] == ver_val[..64];
    let pkg_key = dec(&derive(password, &key_salt, spin, &[0x14, 0x6e, 0x0b, 0xe7, 0xab, 0xac, 0xd0, 0xd6]), &key_salt, &b64(&xml, "p:encryptedKey", "encryptedKeyValue")).ok_or("key value")?;
    // data integrity
    let hmac_key = dec(&pkg_key, &h(&[&pkg_salt, &[0x5f, 0xb2, 0xad, 0x01, 0x0c, 0xb9, 0xe1, 0xf6]]), &b64(&xml, "dataIntegrity", "encryptedHmacKey")).ok_or("hmac key")?;
    let hmac_val = dec(&pkg_key, &h(&[&pkg_salt, &[0xa0, 0x67, 0x7f, 0x02, 0xb2, 0x2c, 0x84, 0x33]]), &b64(&xml, "dataIntegrity", "encryptedHmacValue")).ok_or("hmac value")?;
    let mut mac = Hmac::<Sha512>::new_from_slice(&hmac_key[..64.min(hmac_key.len())]).map_err(|e| e.to_string())?;
    mac.update(&pkg);
    let hmac_ok = hmac_val.len() >= 64 && mac.finalize().into_bytes()[..] == hmac_val[..64];
    if pkg.len() < 8 {
        return Err("package too short".to_string());
    }
    let declared = u64::from_le_bytes([pkg[0], pkg[1], pkg[2], pkg[3], pkg[4], pkg[5], pkg[6], pkg[7]]);
    let mut out = Vec::new();
    for (i, seg) in pkg[8..].chunks(4096).enumerate() {
        let iv = h(&[&pkg_salt, &(i as u32).to_le_bytes()]);
        out.extend(dec(&pkg_key, &iv, seg).ok_or("segment not a multiple of the block size")?);
    }
    out.truncate(std::cmp::min(declared as usize, out.len()));
    Ok((verifier_ok, hmac_ok, declared, out, vec![pkg_salt, key_salt, ver_in, pkg_key, hmac_key]))
}
