use crate::{hex, unhex};
use umya_spreadsheet::helper::coordinate::*;
use umya_spreadsheet::verif_api as va;

fn u(s: &str) -> u32 {
    s.parse::<u32>().unwrap()
}
fn b(s: &str) -> bool {
    s == "1"
}
fn ob<T: ToString>(o: Option<T>) -> String {
    match o {
        Some(v) => v.to_string(),
        None => "-".to_string(),
    }
}

pub fn run(p: &[String]) -> Vec<String> {
    match p[0].as_str() {
        // ---- C17
        "col2str" => vec![hex(&string_from_column_index(&u(&p[1])))],
        "str2col" => vec![column_index_from_string(unhex(&p[1])).to_string()],
        "coord_print" => vec![hex(&coordinate_from_index_with_lock(
            &u(&p[1]),
            &u(&p[2]),
            &b(&p[3]),
            &b(&p[4]),
        ))],
        "coord_parse" => {
            let (c, r, lc, lr) = index_from_coordinate(unhex(&p[1]));
            vec![ob(c), ob(r), ob(lc), ob(lr)]
        }
        // ---- C07 scalar
        "adj_insert" => vec![va::adjustment_insert_coordinate(&u(&p[1]), &u(&p[2]), &u(&p[3])).to_string()],
        "adj_remove" => vec![va::adjustment_remove_coordinate(&u(&p[1]), &u(&p[2]), &u(&p[3])).to_string()],
        "is_remove" => vec![va::is_remove_coordinate(&u(&p[1]), &u(&p[2]), &u(&p[3])).to_string()],
        // ---- C09
        "parse_render" => vec![hex(&va::parse_render(&unhex(&p[1])))],
        "parse_tokens" => {
            let mut out = vec![];
            for (v, t, s) in va::parse_tokens(&unhex(&p[1])) {
                out.push(hex(&v));
                out.push(t);
                out.push(s);
            }
            out
        }
        other => panic!("unknown case kind {}", other),
    }
}
