use crate::{hex, unhex};
use umya_spreadsheet::helper::coordinate::*;
use umya_spreadsheet::verif_api as va;

fn u(s: &str) -> u32 {
    s.parse::<u32>().unwrap()
}
fn b(s: &str) -> bool {
    s == "1"
}
fn ob<T: ToString>(o: Option<T>) -> String {
    match o {
        Some(v) => v.to_string(),
        None => "-".to_string(),
    }
}

fn dump_cells(ws: &umya_spreadsheet::Worksheet) -> String {
    let mut v: Vec<String> = ws
        .get_cell_collection()
        .iter()
        .map(|c| format!("{}={}", c.get_coordinate().get_coordinate(), c.get_value()))
        .collect();
    v.sort();
    v.join(",")
}

pub fn run(p: &[String]) -> Vec<String> {
    match p[0].as_str() {
        // ---- C17
        "col2str" => vec![hex(&string_from_column_index(&u(&p[1])))],
        "str2col" => vec![column_index_from_string(unhex(&p[1])).to_string()],
        "coord_print" => vec![hex(&coordinate_from_index_with_lock(
            &u(&p[1]),
            &u(&p[2]),
            &b(&p[3]),
            &b(&p[4]),
        ))],
        "coord_parse" => {
            let (c, r, lc, lr) = index_from_coordinate(unhex(&p[1]));
            vec![ob(c), ob(r), ob(lc), ob(lr)]
        }
        "range_rt" => {
            let t = unhex(&p[1]);
            let mut r = umya_spreadsheet::Range::default();
            r.set_range(t.as_str());
            if t.chars().any(|c| c.is_ascii_digit()) && t.chars().any(|c| c.is_ascii_alphabetic()) {
                let (a, b2, c, d) = umya_spreadsheet::helper::range::get_start_and_end_point(&t);
                vec![hex(&r.get_range()), a.to_string(), b2.to_string(), c.to_string(), d.to_string()]
            } else {
                vec![hex(&r.get_range())]
            }
        }
        "coord_list" => {
            let mut out = vec![];
            for (c, r) in umya_spreadsheet::helper::range::get_coordinate_list(&unhex(&p[1])) {
                out.push(c.to_string());
                out.push(r.to_string());
            }
            out
        }
        "split_addr" => {
            let t = unhex(&p[1]);
            let (a, b2) = umya_spreadsheet::helper::address::split_address(&t);
            vec![hex(a), hex(b2)]
        }
        "join_split" => {
            let j = umya_spreadsheet::helper::address::join_address(&unhex(&p[1]), &unhex(&p[2]));
            let (a, b2) = umya_spreadsheet::helper::address::split_address(&j);
            vec![hex(a), hex(b2)]
        }
        "addr_struct" => {
            let mut a = umya_spreadsheet::Address::default();
            a.set_sheet_name(unhex(&p[1]));
            a.get_range_mut().set_range(unhex(&p[2]));
            let text = if b(&p[3]) { va::address_ptn2(&a) } else { a.get_address() };
            let mut c = umya_spreadsheet::Address::default();
            c.set_address(text.as_str());
            vec![hex(&text), hex(c.get_sheet_name()), hex(&c.get_range().get_range())]
        }
        "chartable" => {
            // ranges of Unicode scalars satisfying a std predicate (the model of that predicate is generated from this)
            let f: fn(char) -> bool = match p[1].as_str() {
                "616c7068616e756d65726963" => |c| c.is_alphanumeric(),
                "616c7068616265746963" => |c| c.is_alphabetic(),
                "6e756d65726963" => |c| c.is_numeric(),
                "77686974657370616365" => |c| c.is_whitespace(),
                "757070657263617365" => |c| c.is_uppercase(),
                "6c6f77657263617365" => |c| c.is_lowercase(),
                "636f6e74726f6c" => |c| c.is_control(),
                _ => panic!("unknown predicate"),
            };
            let mut out = vec![];
            let mut start: Option<u32> = None;
            for cp in 0u32..=0x110000 {
                let yes = char::from_u32(cp).map(f).unwrap_or(false);
                match (yes, start) {
                    (true, None) => start = Some(cp),
                    (false, Some(s0)) => {
                        out.push(format!("{}-{}", s0, cp - 1));
                        start = None;
                    }
                    _ => {}
                }
            }
            out
        }
        // ---- C07: a merged range on a real sheet, edited through the public API
        "range_adjust" => {
            let mut book = umya_spreadsheet::new_file();
            let ws = book.get_sheet_by_name_mut("Sheet1").unwrap();
            ws.add_merge_cells(unhex(&p[1]));
            let (op, axis, pp, n) = (unhex(&p[2]), unhex(&p[3]), u(&p[4]), u(&p[5]));
            match (op.as_str(), axis.as_str()) {
                ("insert", "row") => ws.insert_new_row(&pp, &n),
                ("insert", "col") => ws.insert_new_column_by_index(&pp, &n),
                ("remove", "row") => ws.remove_row(&pp, &n),
                ("remove", "col") => ws.remove_column_by_index(&pp, &n),
                _ => panic!("bad op"),
            }
            match ws.get_merge_cells().first() {
                Some(r) => vec!["kept".to_string(), hex(&r.get_range())],
                None => vec!["removed".to_string()],
            }
        }
        "sheet_edit" => {
            // op axis p n ca ra cb rb merge kc kr
            let mut book = umya_spreadsheet::new_file();
            let ws = book.get_sheet_by_name_mut("Sheet1").unwrap();
            ws.get_cell_mut((u(&p[5]), u(&p[6]))).set_value_bool(true);
            ws.get_cell_mut((u(&p[7]), u(&p[8]))).set_value_bool(false);
            ws.add_merge_cells(unhex(&p[9]));
            let mut c = umya_spreadsheet::Comment::default();
            c.new_comment((u(&p[10]), u(&p[11])));
            ws.add_comments(c);
            let (op, axis, pp, n) = (unhex(&p[1]), unhex(&p[2]), u(&p[3]), u(&p[4]));
            match (op.as_str(), axis.as_str()) {
                ("insert", "row") => ws.insert_new_row(&pp, &n),
                ("insert", "col") => ws.insert_new_column_by_index(&pp, &n),
                ("remove", "row") => ws.remove_row(&pp, &n),
                ("remove", "col") => ws.remove_column_by_index(&pp, &n),
                _ => panic!("bad op"),
            }
            vec![hex(&dump_cells(ws)),
                 hex(&ws.get_merge_cells().first().map(|r| r.get_range()).unwrap_or("-".to_string())),
                 hex(&ws.get_comments().first().map(|c| c.get_coordinate().get_coordinate()).unwrap_or("-".to_string()))]
        }
        "sheet_move" => {
            // is_move ca ra cb rb range dr+100 dc+100
            let mut book = umya_spreadsheet::new_file();
            let ws = book.get_sheet_by_name_mut("Sheet1").unwrap();
            ws.get_cell_mut((u(&p[2]), u(&p[3]))).set_value_bool(true);
            ws.get_cell_mut((u(&p[4]), u(&p[5]))).set_value_bool(false);
            let (dr, dc) = (u(&p[7]) as i32 - 100, u(&p[8]) as i32 - 100);
            if b(&p[1]) { ws.move_range(&unhex(&p[6]), &dr, &dc); } else { ws.copy_range(&unhex(&p[6]), &dr, &dc); }
            vec![hex(&dump_cells(ws))]
        }
        // ---- C07 scalar
        "adj_insert" => vec![va::adjustment_insert_coordinate(&u(&p[1]), &u(&p[2]), &u(&p[3])).to_string()],
        "adj_remove" => vec![va::adjustment_remove_coordinate(&u(&p[1]), &u(&p[2]), &u(&p[3])).to_string()],
        "is_remove" => vec![va::is_remove_coordinate(&u(&p[1]), &u(&p[2]), &u(&p[3])).to_string()],
        "cell_identity" => {
            // public path through the tokenizer: re-set the coordinate of a formula cell to itself
            let f = unhex(&p[1]);
            let mut c = umya_spreadsheet::Cell::default();
            c.get_coordinate_mut().set_col_num(3);
            c.get_coordinate_mut().set_row_num(5);
            c.set_formula(f.trim_start_matches('=').to_string());
            c.set_coordinate((3u32, 5u32));
            vec![hex(c.get_formula())]
        }
        "cell_translate" => {
            // c0 r0 formula c1 r1
            let mut c = umya_spreadsheet::Cell::default();
            c.get_coordinate_mut().set_col_num(u(&p[1]));
            c.get_coordinate_mut().set_row_num(u(&p[2]));
            c.set_formula(unhex(&p[3]));
            c.set_coordinate((u(&p[4]), u(&p[5])));
            vec![hex(c.get_formula())]
        }
        // ---- C08: a formula cell under insert/remove: the crate-private adjustment trait (hook) and, where the
        // formula cell itself is not hit by the edit, the public workbook-level API
        "formula_edit" => {
            // formula own edited op axis p n
            let (f, own, edited, op, axis, pp, n) = (unhex(&p[1]), unhex(&p[2]), unhex(&p[3]), unhex(&p[4]), unhex(&p[5]), u(&p[6]), u(&p[7]));
            let mut c = umya_spreadsheet::Cell::default();
            c.set_formula(f.clone());
            let (rc, oc, rr, or) = if axis == "col" { (pp, n, 0, 0) } else { (0, 0, pp, n) };
            va::cell_adjust_with_2sheet(&mut c, &own, &edited, op == "insert", &rc, &oc, &rr, &or);
            let mut out = vec![hex(c.get_formula())];
            // public path: formula cell parked before the band (needs p > 1)
            if pp > 1 {
                let mut book = umya_spreadsheet::new_file_empty_worksheet();
                for name in ["Data", "Other", "My Sheet", "it's"] {
                    book.new_sheet(name).unwrap();
                }
                book.get_sheet_by_name_mut(&own).unwrap().get_cell_mut((1, 1)).set_formula(f);
                match (op.as_str(), axis.as_str()) {
                    ("insert", "row") => book.insert_new_row(&edited, &pp, &n),
                    ("insert", "col") => book.insert_new_column_by_index(&edited, &pp, &n),
                    ("remove", "row") => book.remove_row(&edited, &pp, &n),
                    ("remove", "col") => book.remove_column_by_index(&edited, &pp, &n),
                    _ => panic!("bad op"),
                }
                out.push(hex(book.get_sheet_by_name(&own).unwrap().get_cell((1, 1)).unwrap().get_formula()));
            }
            out
        }
        "defined_name_edit" => {
            // address edited op axis p n : a sheet-scoped defined name on a real workbook, edited through the public API
            let (addr, edited, op, axis, pp, n) = (unhex(&p[1]), unhex(&p[2]), unhex(&p[3]), unhex(&p[4]), u(&p[5]), u(&p[6]));
            let mut book = umya_spreadsheet::new_file_empty_worksheet();
            for name in ["Data", "Other", "My Sheet"] {
                book.new_sheet(name).unwrap();
            }
            book.get_sheet_by_name_mut(&edited).unwrap().add_defined_name("N".to_string(), addr).unwrap();
            let ws = book.get_sheet_by_name_mut(&edited).unwrap();
            match (op.as_str(), axis.as_str()) {
                ("insert", "row") => ws.insert_new_row(&pp, &n),
                ("insert", "col") => ws.insert_new_column_by_index(&pp, &n),
                ("remove", "row") => ws.remove_row(&pp, &n),
                ("remove", "col") => ws.remove_column_by_index(&pp, &n),
                _ => panic!("bad op"),
            }
            match ws.get_defined_names().first() {
                Some(d) => vec![hex(&d.get_address())],
                None => vec![hex("<dropped>")],
            }
        }
        // ---- C18
        "convert_date" => {
            let v: Vec<i32> = p[1..7].iter().map(|x| x.parse::<i32>().unwrap()).collect();
            vec![format!("{:?}", umya_spreadsheet::helper::date::convert_date(v[0], v[1], v[2], v[3], v[4], v[5]))]
        }
        "date_roundtrip" => {
            use chrono::{Datelike, Timelike};
            let v: Vec<i32> = p[1..7].iter().map(|x| x.parse::<i32>().unwrap()).collect();
            let s = umya_spreadsheet::helper::date::convert_date(v[0], v[1], v[2], v[3], v[4], v[5]);
            let dt = umya_spreadsheet::helper::date::excel_to_date_time_object(&s, None);
            vec![dt.year().to_string(), dt.month().to_string(), dt.day().to_string(), dt.hour().to_string(), dt.minute().to_string(), dt.second().to_string()]
        }
        "serial_to_date" => {
            use chrono::{Datelike, Timelike};
            let n = p[1].parse::<f64>().unwrap();
            let dt = umya_spreadsheet::helper::date::excel_to_date_time_object(&n, None);
            vec![dt.year().to_string(), dt.month().to_string(), dt.day().to_string(), dt.hour().to_string(), dt.minute().to_string(), dt.second().to_string()]
        }
        // ---- C19
        "straight" => {
            // value pattern decimals thousands
            let k = u(&p[3]) as usize;
            let pat = unhex(&p[2]);
            let matches = vec![pat.clone(), "0".to_string(), if k > 0 { ".".to_string() } else { String::new() }, "0".repeat(k)];
            vec![hex(&va::format_straight_numeric_value(&unhex(&p[1]), &pat, &matches, &b(&p[4])))]
        }
        "format_value" => {
            // number text, format code : through the public cell API
            let mut c = umya_spreadsheet::Cell::default();
            c.set_value_number(unhex(&p[1]).parse::<f64>().unwrap());
            c.get_style_mut().get_number_format_mut().set_format_code(unhex(&p[2]));
            vec![hex(&c.get_formatted_value())]
        }
        // ---- C09
        "parse_render" => vec![hex(&va::parse_render(&unhex(&p[1])))],
        "parse_tokens" => {
            let mut out = vec![];
            for (v, t, s) in va::parse_tokens(&unhex(&p[1])) {
                out.push(hex(&v));
                out.push(t);
                out.push(s);
            }
            out
        }
        other => panic!("unknown case kind {}", other),
    }
}
