use crate::{hex, unhex};
use umya_spreadsheet::helper::coordinate::*;
use umya_spreadsheet::verif_api as va;

fn store_problems(ws: &umya_spreadsheet::Worksheet) -> Vec<String> {
    let mut problems: Vec<String> = vec![];
    let listed: Vec<(u32, u32)> = ws.get_cell_collection_sorted().iter().map(|c| (*c.get_coordinate().get_row_num(), *c.get_coordinate().get_col_num())).collect();
    if ws.get_cell_collection().len() != listed.len() { problems.push("unsorted and sorted listing differ in length".into()); }
    for w in listed.windows(2) { if w[0] >= w[1] { problems.push("sorted listing not strictly ascending".into()); } }
    for (r, c) in &listed {
        match ws.get_cell((*c, *r)) {
            Some(cell) => if (cell.get_coordinate().get_col_num(), cell.get_coordinate().get_row_num()) != (c, r) { problems.push(format!("cell found at ({},{}) reports another coordinate", c, r)); },
            None => problems.push(format!("listed cell ({},{}) not found by lookup", c, r)),
        }
        if ws.get_row_dimension(r).is_none() { problems.push(format!("row {} of an existing cell is unknown to the writer", r)); }
        if ws.get_collection_by_row(r).len() != listed.iter().filter(|t| t.0 == *r).count() { problems.push(format!("by-row listing of row {} disagrees", r)); }
        if ws.get_collection_by_column(c).len() != listed.iter().filter(|t| t.1 == *c).count() { problems.push(format!("by-column listing of column {} disagrees", c)); }
    }
    let hi = ws.get_highest_column_and_row();
    let exp_hi = (listed.iter().map(|t| t.1).max().unwrap_or(0), listed.iter().map(|t| t.0).max().unwrap_or(0));
    if hi != exp_hi { problems.push(format!("highest column/row {:?} expected {:?}", hi, exp_hi)); }
    problems
}
fn u(s: &str) -> u32 {
    s.parse::<u32>().unwrap()
}
fn b(s: &str) -> bool {
    s == "1"
}
fn ob<T: ToString>(o: Option<T>) -> String {
    match o {
        Some(v) => v.to_string(),
        None => "-".to_string(),
    }
}

struct ScriptedSink {
    modes: Vec<char>,
    calls: usize,
    taken: usize,
}
impl std::io::Write for ScriptedSink {
    fn write(&mut self, buf: &[u8]) -> std::io::Result<usize> {
        let m = *self.modes.get(self.calls).unwrap_or(&'A');
        self.calls += 1;
        let n = match m {
            'E' => return Err(std::io::Error::new(std::io::ErrorKind::Other, "scripted failure")),
            'Z' => 0,
            'H' => std::cmp::max(1, buf.len() / 2),
            _ => buf.len(),
        };
        self.taken += n;
        Ok(n)
    }
    fn flush(&mut self) -> std::io::Result<()> {
        Ok(())
    }
}
impl std::io::Seek for ScriptedSink {
    fn seek(&mut self, _pos: std::io::SeekFrom) -> std::io::Result<u64> {
        Ok(0)
    }
}
/// a workbook whose package is below (small) or well above (big) the 8 KiB file buffer
fn sample_book(big: bool) -> umya_spreadsheet::Spreadsheet {
    let mut book = umya_spreadsheet::new_file();
    let ws = book.get_sheet_by_name_mut("Sheet1").unwrap();
    ws.get_cell_mut((1, 1)).set_value_string("x");
    if big {
        let mut x: u64 = 88172645463325252;
        for r in 1..400u32 {
            for c in 1..6u32 {
                x ^= x << 13;
                x ^= x >> 7;
                x ^= x << 17;
                ws.get_cell_mut((c, r)).set_value_string(format!("{:x}", x));
            }
        }
    }
    book
}

fn dump_cells(ws: &umya_spreadsheet::Worksheet) -> String {
    let mut v: Vec<String> = ws
        .get_cell_collection()
        .iter()
        .map(|c| format!("{}={}", c.get_coordinate().get_coordinate(), c.get_value()))
        .collect();
    v.sort();
    v.join(",")
}

pub fn run(p: &[String]) -> Vec<String> {
    match p[0].as_str() {
        // ---- C17
        "col2str" => vec![hex(&string_from_column_index(&u(&p[1])))],
        "str2col" => vec![column_index_from_string(unhex(&p[1])).to_string()],
        "coord_print" => vec![hex(&coordinate_from_index_with_lock(
            &u(&p[1]),
            &u(&p[2]),
            &b(&p[3]),
            &b(&p[4]),
        ))],
        "coord_parse" => {
            let (c, r, lc, lr) = index_from_coordinate(unhex(&p[1]));
            vec![ob(c), ob(r), ob(lc), ob(lr)]
        }
        "range_rt" => {
            let t = unhex(&p[1]);
            let mut r = umya_spreadsheet::Range::default();
            r.set_range(t.as_str());
            if t.chars().any(|c| c.is_ascii_digit()) && t.chars().any(|c| c.is_ascii_alphabetic()) {
                let (a, b2, c, d) = umya_spreadsheet::helper::range::get_start_and_end_point(&t);
                vec![hex(&r.get_range()), a.to_string(), b2.to_string(), c.to_string(), d.to_string()]
            } else {
                vec![hex(&r.get_range())]
            }
        }
        "coord_list" => {
            let mut out = vec![];
            for (c, r) in umya_spreadsheet::helper::range::get_coordinate_list(&unhex(&p[1])) {
                out.push(c.to_string());
                out.push(r.to_string());
            }
            out
        }
        "split_addr" => {
            let t = unhex(&p[1]);
            let (a, b2) = umya_spreadsheet::helper::address::split_address(&t);
            vec![hex(a), hex(b2)]
        }
        "join_split" => {
            let j = umya_spreadsheet::helper::address::join_address(&unhex(&p[1]), &unhex(&p[2]));
            let (a, b2) = umya_spreadsheet::helper::address::split_address(&j);
            vec![hex(a), hex(b2)]
        }
        "addr_struct" => {
            let mut a = umya_spreadsheet::Address::default();
            a.set_sheet_name(unhex(&p[1]));
            a.get_range_mut().set_range(unhex(&p[2]));
            let text = if b(&p[3]) { va::address_ptn2(&a) } else { a.get_address() };
            let mut c = umya_spreadsheet::Address::default();
            c.set_address(text.as_str());
            vec![hex(&text), hex(c.get_sheet_name()), hex(&c.get_range().get_range())]
        }
        "chartable" => {
            // ranges of Unicode scalars satisfying a std predicate (the model of that predicate is generated from this)
            let f: fn(char) -> bool = match p[1].as_str() {
                "616c7068616e756d65726963" => |c| c.is_alphanumeric(),
                "616c7068616265746963" => |c| c.is_alphabetic(),
                "6e756d65726963" => |c| c.is_numeric(),
                "77686974657370616365" => |c| c.is_whitespace(),
                "757070657263617365" => |c| c.is_uppercase(),
                "6c6f77657263617365" => |c| c.is_lowercase(),
                "636f6e74726f6c" => |c| c.is_control(),
                _ => panic!("unknown predicate"),
            };
            let mut out = vec![];
            let mut start: Option<u32> = None;
            for cp in 0u32..=0x110000 {
                let yes = char::from_u32(cp).map(f).unwrap_or(false);
                match (yes, start) {
                    (true, None) => start = Some(cp),
                    (false, Some(s0)) => {
                        out.push(format!("{}-{}", s0, cp - 1));
                        start = None;
                    }
                    _ => {}
                }
            }
            out
        }
        // ---- C07: a merged range on a real sheet, edited through the public API
        "range_adjust" => {
            let mut book = umya_spreadsheet::new_file();
            let ws = book.get_sheet_by_name_mut("Sheet1").unwrap();
            ws.add_merge_cells(unhex(&p[1]));
            let (op, axis, pp, n) = (unhex(&p[2]), unhex(&p[3]), u(&p[4]), u(&p[5]));
            match (op.as_str(), axis.as_str()) {
                ("insert", "row") => ws.insert_new_row(&pp, &n),
                ("insert", "col") => ws.insert_new_column_by_index(&pp, &n),
                ("remove", "row") => ws.remove_row(&pp, &n),
                ("remove", "col") => ws.remove_column_by_index(&pp, &n),
                _ => panic!("bad op"),
            }
            match ws.get_merge_cells().first() {
                Some(r) => vec!["kept".to_string(), hex(&r.get_range())],
                None => vec!["removed".to_string()],
            }
        }
        "sheet_edit" => {
            // op axis p n ca ra cb rb merge kc kr
            let mut book = umya_spreadsheet::new_file();
            let ws = book.get_sheet_by_name_mut("Sheet1").unwrap();
            ws.get_cell_mut((u(&p[5]), u(&p[6]))).set_value_bool(true);
            ws.get_cell_mut((u(&p[7]), u(&p[8]))).set_value_bool(false);
            ws.add_merge_cells(unhex(&p[9]));
            let mut c = umya_spreadsheet::Comment::default();
            c.new_comment((u(&p[10]), u(&p[11])));
            ws.add_comments(c);
            let (op, axis, pp, n) = (unhex(&p[1]), unhex(&p[2]), u(&p[3]), u(&p[4]));
            match (op.as_str(), axis.as_str()) {
                ("insert", "row") => ws.insert_new_row(&pp, &n),
                ("insert", "col") => ws.insert_new_column_by_index(&pp, &n),
                ("remove", "row") => ws.remove_row(&pp, &n),
                ("remove", "col") => ws.remove_column_by_index(&pp, &n),
                _ => panic!("bad op"),
            }
            vec![hex(&dump_cells(ws)),
                 hex(&ws.get_merge_cells().first().map(|r| r.get_range()).unwrap_or("-".to_string())),
                 hex(&ws.get_comments().first().map(|c| c.get_coordinate().get_coordinate()).unwrap_or("-".to_string()))]
        }
        "sheet_settings" => {
            // op axis p n c1 c2 r1 r2 cf af
            let mut book = umya_spreadsheet::new_file();
            let ws = book.get_sheet_by_name_mut("Sheet1").unwrap();
            ws.get_column_dimension_by_number_mut(&u(&p[5])).set_hidden(true);
            ws.get_column_dimension_by_number_mut(&u(&p[6])).set_best_fit(true);
            ws.get_row_dimension_mut(&u(&p[7])).set_hidden(true);
            ws.get_row_dimension_mut(&u(&p[8])).set_thick_bot(true);
            let mut rg = umya_spreadsheet::Range::default();
            rg.set_range(unhex(&p[9]));
            let mut cf = umya_spreadsheet::ConditionalFormatting::default();
            cf.get_sequence_of_references_mut().add_range_collection(rg);
            ws.add_conditional_formatting_collection(cf);
            ws.set_auto_filter(unhex(&p[10]));
            let (op, axis, pp, n) = (unhex(&p[1]), unhex(&p[2]), u(&p[3]), u(&p[4]));
            match (op.as_str(), axis.as_str()) {
                ("insert", "row") => ws.insert_new_row(&pp, &n),
                ("insert", "col") => ws.insert_new_column_by_index(&pp, &n),
                ("remove", "row") => ws.remove_row(&pp, &n),
                ("remove", "col") => ws.remove_column_by_index(&pp, &n),
                _ => panic!("bad op"),
            }
            let tag = |a: bool, an: &str, b: bool, bn: &str| -> String { let mut t = Vec::new(); if a { t.push(an) } if b { t.push(bn) } t.join("+") };
            let mut cols: Vec<(u32, String)> = ws.get_column_dimensions().iter().map(|c| (*c.get_col_num(), tag(*c.get_hidden(), "hidden", *c.get_best_fit(), "bestfit"))).collect();
            cols.sort();
            let mut rows: Vec<(u32, String)> = ws.get_row_dimensions().iter().map(|r| (*r.get_row_num(), tag(*r.get_hidden(), "hidden", *r.get_thick_bot(), "thickbot"))).collect();
            rows.sort();
            let cfs: Vec<String> = ws.get_conditional_formatting_collection().iter().map(|c| c.get_sequence_of_references().get_sqref()).collect();
            vec![hex(&cols.iter().map(|(k, t)| format!("{}={}", k, t)).collect::<Vec<_>>().join(",")),
                 hex(&rows.iter().map(|(k, t)| format!("{}={}", k, t)).collect::<Vec<_>>().join(",")),
                 hex(&if cfs.is_empty() { "-".to_string() } else { cfs.join(";") }),
                 hex(&ws.get_auto_filter().map(|a| a.get_range().get_range()).unwrap_or("-".to_string()))]
        }
        "sheet_move" => {
            // is_move ca ra cb rb range dr+100 dc+100
            let mut book = umya_spreadsheet::new_file();
            let ws = book.get_sheet_by_name_mut("Sheet1").unwrap();
            ws.get_cell_mut((u(&p[2]), u(&p[3]))).set_value_bool(true);
            ws.get_cell_mut((u(&p[4]), u(&p[5]))).set_value_bool(false);
            let (dr, dc) = (u(&p[7]) as i32 - 100, u(&p[8]) as i32 - 100);
            if b(&p[1]) { ws.move_range(&unhex(&p[6]), &dr, &dc); } else { ws.copy_range(&unhex(&p[6]), &dr, &dc); }
            vec![hex(&dump_cells(ws))]
        }
        "store_move" => {
            // is_move ca ra cb rb range dr+100 dc+100 : coherence of the cell store after move_range / copy_range
            let mut book = umya_spreadsheet::new_file();
            let ws = book.get_sheet_by_name_mut("Sheet1").unwrap();
            ws.get_cell_mut((u(&p[2]), u(&p[3]))).set_value_bool(true);
            ws.get_cell_mut((u(&p[4]), u(&p[5]))).set_value_bool(false);
            let (dr, dc) = (u(&p[7]) as i32 - 100, u(&p[8]) as i32 - 100);
            if b(&p[1]) { ws.move_range(&unhex(&p[6]), &dr, &dc); } else { ws.copy_range(&unhex(&p[6]), &dr, &dc); }
            let problems = store_problems(ws);
            if problems.is_empty() { vec!["coherent".to_string()] } else { let mut v = vec!["incoherent".to_string()]; v.extend(problems.iter().map(|s| hex(s))); v }
        }
        "book_fanout" => {
            // op axis edited p n ca ra cb rb
            let mut book = umya_spreadsheet::new_file_empty_worksheet();
            book.new_sheet("A").unwrap();
            book.new_sheet("B").unwrap();
            book.get_sheet_by_name_mut("A").unwrap().get_cell_mut((u(&p[6]), u(&p[7]))).set_value_bool(true);
            book.get_sheet_by_name_mut("B").unwrap().get_cell_mut((u(&p[8]), u(&p[9]))).set_value_bool(false);
            let (op, axis, edited, pp, n) = (unhex(&p[1]), unhex(&p[2]), unhex(&p[3]), u(&p[4]), u(&p[5]));
            match (op.as_str(), axis.as_str()) {
                ("insert", "row") => book.insert_new_row(&edited, &pp, &n),
                ("insert", "col") => book.insert_new_column_by_index(&edited, &pp, &n),
                ("remove", "row") => book.remove_row(&edited, &pp, &n),
                ("remove", "col") => book.remove_column_by_index(&edited, &pp, &n),
                _ => panic!("bad op"),
            }
            let dump = |name: &str| -> String {
                let ws = book.get_sheet_by_name(name).unwrap();
                let mut v: Vec<String> = ws.get_cell_collection().iter().map(|c| c.get_coordinate().get_coordinate()).collect();
                v.sort();
                v.join(",")
            };
            vec![hex(&dump("A")), hex(&dump("B"))]
        }
        "from_other_sheet" => {
            // op axis p n c r
            let mut book = umya_spreadsheet::new_file_empty_worksheet();
            book.new_sheet("A").unwrap();
            let ws = book.new_sheet("B").unwrap();
            ws.get_cell_mut((u(&p[5]), u(&p[6]))).set_value_bool(true);
            let (op, axis, pp, n) = (unhex(&p[1]), unhex(&p[2]), u(&p[3]), u(&p[4]));
            match (op.as_str(), axis.as_str()) {
                ("insert", "row") => ws.insert_new_row_from_other_sheet("A", &pp, &n),
                ("insert", "col") => ws.insert_new_column_by_index_from_other_sheet("A", &pp, &n),
                ("remove", "row") => ws.remove_row_from_other_sheet("A", &pp, &n),
                ("remove", "col") => ws.remove_column_by_index_from_other_sheet("A", &pp, &n),
                _ => panic!("bad op"),
            }
            vec![hex(&dump_cells(ws).split('=').next().unwrap_or("").to_string())]
        }
        // ---- C07 scalar
        "adj_insert" => vec![va::adjustment_insert_coordinate(&u(&p[1]), &u(&p[2]), &u(&p[3])).to_string()],
        "adj_remove" => vec![va::adjustment_remove_coordinate(&u(&p[1]), &u(&p[2]), &u(&p[3])).to_string()],
        "is_remove" => vec![va::is_remove_coordinate(&u(&p[1]), &u(&p[2]), &u(&p[3])).to_string()],
        "cell_identity" => {
            // public path through the tokenizer: re-set the coordinate of a formula cell to itself
            let f = unhex(&p[1]);
            let mut c = umya_spreadsheet::Cell::default();
            c.get_coordinate_mut().set_col_num(3);
            c.get_coordinate_mut().set_row_num(5);
            c.set_formula(f.trim_start_matches('=').to_string());
            c.set_coordinate((3u32, 5u32));
            vec![hex(c.get_formula())]
        }
        "cell_translate" => {
            // c0 r0 formula c1 r1
            let mut c = umya_spreadsheet::Cell::default();
            c.get_coordinate_mut().set_col_num(u(&p[1]));
            c.get_coordinate_mut().set_row_num(u(&p[2]));
            c.set_formula(unhex(&p[3]));
            c.set_coordinate((u(&p[4]), u(&p[5])));
            vec![hex(c.get_formula())]
        }
        // ---- C08: a formula cell under insert/remove: the crate-private adjustment trait (hook) and, where the
        // formula cell itself is not hit by the edit, the public workbook-level API
        "formula_edit" => {
            // formula own edited op axis p n
            let (f, own, edited, op, axis, pp, n) = (unhex(&p[1]), unhex(&p[2]), unhex(&p[3]), unhex(&p[4]), unhex(&p[5]), u(&p[6]), u(&p[7]));
            let mut c = umya_spreadsheet::Cell::default();
            c.set_formula(f.clone());
            let (rc, oc, rr, or) = if axis == "col" { (pp, n, 0, 0) } else { (0, 0, pp, n) };
            va::cell_adjust_with_2sheet(&mut c, &own, &edited, op == "insert", &rc, &oc, &rr, &or);
            let mut out = vec![hex(c.get_formula())];
            // public path: formula cell parked before the band (needs p > 1)
            if pp > 1 {
                let mut book = umya_spreadsheet::new_file_empty_worksheet();
                for name in ["Data", "Other", "My Sheet", "it's"] {
                    book.new_sheet(name).unwrap();
                }
                book.get_sheet_by_name_mut(&own).unwrap().get_cell_mut((1, 1)).set_formula(f);
                match (op.as_str(), axis.as_str()) {
                    ("insert", "row") => book.insert_new_row(&edited, &pp, &n),
                    ("insert", "col") => book.insert_new_column_by_index(&edited, &pp, &n),
                    ("remove", "row") => book.remove_row(&edited, &pp, &n),
                    ("remove", "col") => book.remove_column_by_index(&edited, &pp, &n),
                    _ => panic!("bad op"),
                }
                out.push(hex(book.get_sheet_by_name(&own).unwrap().get_cell((1, 1)).unwrap().get_formula()));
            }
            out
        }
        "defined_name_edit" => {
            // address edited op axis p n : a sheet-scoped defined name on a real workbook, edited through the public API
            let (addr, edited, op, axis, pp, n) = (unhex(&p[1]), unhex(&p[2]), unhex(&p[3]), unhex(&p[4]), u(&p[5]), u(&p[6]));
            let mut book = umya_spreadsheet::new_file_empty_worksheet();
            for name in ["Data", "Other", "My Sheet"] {
                book.new_sheet(name).unwrap();
            }
            book.get_sheet_by_name_mut(&edited).unwrap().add_defined_name("N".to_string(), addr).unwrap();
            let ws = book.get_sheet_by_name_mut(&edited).unwrap();
            match (op.as_str(), axis.as_str()) {
                ("insert", "row") => ws.insert_new_row(&pp, &n),
                ("insert", "col") => ws.insert_new_column_by_index(&pp, &n),
                ("remove", "row") => ws.remove_row(&pp, &n),
                ("remove", "col") => ws.remove_column_by_index(&pp, &n),
                _ => panic!("bad op"),
            }
            match ws.get_defined_names().first() {
                Some(d) => vec![hex(&d.get_address())],
                None => vec![hex("<dropped>")],
            }
        }
        // ---- C01
        "cell_roundtrip" => {
            // kind text formula : one cell B2 through save + reload; kind in text|number|bool|error|value (guess) ; formula may be empty
            let (kind, text, formula) = (unhex(&p[1]), unhex(&p[2]), unhex(&p[3]));
            let mut book = umya_spreadsheet::new_file();
            {
                let c = book.get_sheet_by_name_mut("Sheet1").unwrap().get_cell_mut((2, 2));
                match kind.as_str() {
                    "text" => { c.set_value_string(text.clone()); }
                    "number" => { c.set_value_number(text.parse::<f64>().unwrap()); }
                    "bool" => { c.set_value_bool(text == "TRUE"); }
                    "error" => { c.set_error(text.clone()); }
                    _ => { c.set_value(text.clone()); }
                }
                if !formula.is_empty() {
                    let v = c.get_cell_value().clone();
                    c.set_formula(formula.clone());
                    let _ = v;
                }
            }
            let show = |c: &umya_spreadsheet::Cell| format!("{}|{}|{}", c.get_data_type(), c.get_value(), c.get_formula());
            let before = show(book.get_sheet_by_name("Sheet1").unwrap().get_cell((2, 2)).unwrap());
            let mut buf: Vec<u8> = Vec::new();
            umya_spreadsheet::writer::xlsx::write_writer(&book, &mut buf).unwrap();
            let back = umya_spreadsheet::reader::xlsx::read_reader(std::io::Cursor::new(buf), true).unwrap();
            let after = match back.get_sheet_by_name("Sheet1").unwrap().get_cell((2, 2)) { Some(c) => show(c), None => "<no cell>".to_string() };
            vec![hex(&before), hex(&after)]
        }
        "sst_pair" => {
            // kind text kind text : cells A1 and A2 (text | rich | rich_bold | rich2) through save + reload
            let mut book = umya_spreadsheet::new_file();
            {
                let ws = book.get_sheet_by_name_mut("Sheet1").unwrap();
                for (row, k) in [(1u32, 1usize), (2u32, 3usize)] {
                    let (kind, text) = (unhex(&p[k]), unhex(&p[k + 1]));
                    let c = ws.get_cell_mut((1, row));
                    if kind == "text" { c.set_value_string(text); continue; }
                    let chars: Vec<char> = text.chars().collect();
                    let given_cut: i64 = if p.len() > 5 { p[if k == 1 { 5 } else { 6 }].parse().unwrap_or(-1) } else { -1 };
                    let cut = if kind == "rich2" { if given_cut >= 0 { (given_cut as usize).min(chars.len()) } else { (chars.len() + 1) / 2 } } else { chars.len() };
                    let parts: Vec<String> = if kind == "rich2" { vec![chars[..cut].iter().collect(), chars[cut..].iter().collect()] } else { vec![text.clone()] };
                    let mut rt = umya_spreadsheet::RichText::default();
                    for part in parts {
                        let mut te = umya_spreadsheet::TextElement::default();
                        te.set_text(part);
                        if kind == "rich_bold" { te.get_run_properties_mut().set_bold(true); }
                        rt.add_rich_text_elements(te);
                    }
                    c.set_rich_text(rt);
                }
            }
            let show = |book: &umya_spreadsheet::Spreadsheet| {
                let ws = book.get_sheet_by_name("Sheet1").unwrap();
                (1u32..=2).map(|r| match ws.get_cell((1, r)) {
                    None => "<no cell>".to_string(),
                    Some(c) => match c.get_cell_value().get_raw_value() {
                        umya_spreadsheet::structs::CellRawValue::RichText(rt) => format!("rich[{}]", rt.get_rich_text_elements().iter().map(|e| format!("{}/{}", e.get_text(), e.get_run_properties().map(|f| *f.get_bold()).unwrap_or(false))).collect::<Vec<_>>().join(",")),
                        _ => format!("{}:{}", c.get_data_type(), c.get_value()),
                    },
                }).collect::<Vec<_>>().join(" ; ")
            };
            let before = show(&book);
            let mut buf: Vec<u8> = Vec::new();
            umya_spreadsheet::writer::xlsx::write_writer(&book, &mut buf).unwrap();
            let back = umya_spreadsheet::reader::xlsx::read_reader(std::io::Cursor::new(buf), true).unwrap();
            vec![hex(&before), hex(&show(&back))]
        }
        // ---- C03
        "shared_formula" => {
            // formula anchor child : a real package whose sheet part carries a shared formula block, loaded by the real reader
            use std::io::{Read, Write};
            let (formula, anchor, child) = (unhex(&p[1]), unhex(&p[2]), unhex(&p[3]));
            // the block's ref attribute: given, or the rectangle anchor:child
            let given_ref = if p.len() > 4 { unhex(&p[4]) } else { String::new() };
            let book = umya_spreadsheet::new_file();
            let mut buf: Vec<u8> = Vec::new();
            umya_spreadsheet::writer::xlsx::write_writer(&book, &mut buf).unwrap();
            let mut zin = zip::ZipArchive::new(std::io::Cursor::new(buf)).unwrap();
            let mut out = zip::ZipWriter::new(std::io::Cursor::new(Vec::new()));
            let esc = formula.replace('&', "&amp;").replace('<', "&lt;").replace('>', "&gt;");
            let rownum = |s: &str| s.trim_start_matches(|c: char| c.is_ascii_alphabetic()).to_string();
            let cells = if anchor == child {
                format!("<row r=\"{}\"><c r=\"{}\"><f t=\"shared\" ref=\"{}\" si=\"0\">{}</f></c></row>", rownum(&anchor), anchor, if given_ref.is_empty() { anchor.clone() } else { given_ref.clone() }, esc)
            } else if rownum(&anchor) == rownum(&child) {
                format!("<row r=\"{}\"><c r=\"{}\"><f t=\"shared\" ref=\"{}\" si=\"0\">{}</f></c><c r=\"{}\"><f t=\"shared\" si=\"0\"/></c></row>", rownum(&anchor), anchor, if given_ref.is_empty() { format!("{}:{}", anchor, child) } else { given_ref.clone() }, esc, child)
            } else {
                format!("<row r=\"{}\"><c r=\"{}\"><f t=\"shared\" ref=\"{}\" si=\"0\">{}</f></c></row><row r=\"{}\"><c r=\"{}\"><f t=\"shared\" si=\"0\"/></c></row>", rownum(&anchor), anchor, if given_ref.is_empty() { format!("{}:{}", anchor, child) } else { given_ref.clone() }, esc, rownum(&child), child)
            };
            for i in 0..zin.len() {
                let mut f = zin.by_index(i).unwrap();
                let name = f.name().to_string();
                let mut data = Vec::new();
                f.read_to_end(&mut data).unwrap();
                if name == "xl/worksheets/sheet1.xml" {
                    let xml = String::from_utf8(data).unwrap();
                    let xml = if xml.contains("<sheetData/>") { xml.replace("<sheetData/>", &format!("<sheetData>{}</sheetData>", cells)) } else {
                        let a = xml.find("<sheetData>").unwrap(); let b2 = xml.find("</sheetData>").unwrap();
                        format!("{}<sheetData>{}{}", &xml[..a], cells, &xml[b2..])
                    };
                    data = xml.into_bytes();
                }
                out.start_file(name, zip::write::SimpleFileOptions::default()).unwrap();
                out.write_all(&data).unwrap();
            }
            let bytes = out.finish().unwrap().into_inner();
            let back = umya_spreadsheet::reader::xlsx::read_reader(std::io::Cursor::new(bytes), true).unwrap();
            let ws = back.get_sheet_by_name("Sheet1").unwrap();
            vec![hex(ws.get_cell(child.as_str()).map(|c| c.get_formula()).unwrap_or("<no cell>"))]
        }
        // ---- C06
        "hyperlink_roundtrip" => {
            // n kinds [cells] : n cells (the given ones, then A20, C1, ...) each with its own hyperlink; save, reload, report the cells whose target changed
            let n = u(&p[1]);
            let kinds: Vec<String> = if p.len() > 2 { unhex(&p[2]).split(',').map(|s| s.to_string()).collect() } else { vec![] };
            let mut cells: Vec<String> = if p.len() > 3 { unhex(&p[3]).split(',').filter(|s| !s.is_empty()).map(|s| s.to_string()).collect() } else { vec![] };
            let mut k = 0; while (cells.len() as u32) < n { k += 1; let extra = if cells.is_empty() && p.len() <= 3 { format!("A{}", k) } else { format!("{}{}", ["A", "C", "D", "E"][k % 4], 20 + k) }; if !cells.contains(&extra) { cells.push(extra); } }
            let kind = |i: usize| kinds.get(i).map(|s| s.as_str()).unwrap_or("url").to_string();
            let target = |i: usize| match kind(i).as_str() { "blank" => String::new(), "location" => format!("Sheet1!B{}", i + 1), _ => format!("https://example.invalid/{}", i + 1) };
            let mut book = umya_spreadsheet::new_file();
            let ws = book.get_sheet_by_name_mut("Sheet1").unwrap();
            for (i, cell) in cells.iter().enumerate() {
                let c = ws.get_cell_mut(cell.as_str());
                c.set_value_string(format!("link{}", i + 1));
                c.get_hyperlink_mut().set_url(target(i));
                if kind(i) == "location" { c.get_hyperlink_mut().set_location(true); }
            }
            let mut buf: Vec<u8> = Vec::new();
            umya_spreadsheet::writer::xlsx::write_writer(&book, &mut buf).unwrap();
            let back = umya_spreadsheet::reader::xlsx::read_reader(std::io::Cursor::new(buf), true).unwrap();
            let ws = back.get_sheet_by_name("Sheet1").unwrap();
            let mut wrong = vec![];
            for (i, cell) in cells.iter().enumerate() {
                let got = ws.get_cell(cell.as_str()).and_then(|c| c.get_hyperlink()).map(|h| h.get_url().to_string()).unwrap_or("<none>".to_string());
                if got != target(i) { wrong.push(format!("{}->{}", cell, got)); }
            }
            vec![hex(&wrong.join(","))]
        }
        // ---- C04
        "attr_generations" => {
            // text : attribute channels (internal hyperlink location, sheet name, table column name) through three save/load generations
            let text = unhex(&p[1]);
            let mut book = umya_spreadsheet::new_file();
            {
                let ws = book.get_sheet_by_name_mut("Sheet1").unwrap();
                let c = ws.get_cell_mut((1, 1));
                c.set_value_string("x");
                c.get_hyperlink_mut().set_url(text.clone()).set_location(true);
            }
            let _ = book.new_sheet(text.clone());
            let mut out = vec![];
            for _ in 0..3 {
                let mut buf: Vec<u8> = Vec::new();
                umya_spreadsheet::writer::xlsx::write_writer(&book, &mut buf).unwrap();
                book = umya_spreadsheet::reader::xlsx::read_reader(std::io::Cursor::new(buf), true).unwrap();
                let ws = book.get_sheet_by_name("Sheet1").unwrap();
                let loc = ws.get_cell((1, 1)).and_then(|c| c.get_hyperlink()).map(|h| h.get_url().to_string()).unwrap_or("<none>".into());
                let names: Vec<String> = book.get_sheet_collection().iter().map(|w| w.get_name().to_string()).collect();
                out.push(hex(&format!("location={} sheets={}", loc, names.join("|"))));
            }
            out
        }
        // ---- C05
        "font_roundtrip" => {
            // name size bold name size bold : two cells with these fonts, saved and reloaded
            let mut book = umya_spreadsheet::new_file();
            let ws = book.get_sheet_by_name_mut("Sheet1").unwrap();
            for (i, k) in [(1u32, 1usize), (2u32, 4usize)] {
                let c = ws.get_cell_mut((1, i));
                c.set_value_string("x");
                let f = c.get_style_mut().get_font_mut();
                f.set_name(unhex(&p[k]));
                f.set_size(u(&p[k + 1]) as f64);
                f.set_bold(b(&p[k + 2]));
            }
            let mut buf: Vec<u8> = Vec::new();
            umya_spreadsheet::writer::xlsx::write_writer(&book, &mut buf).unwrap();
            let back = umya_spreadsheet::reader::xlsx::read_reader(std::io::Cursor::new(buf), true).unwrap();
            let ws = back.get_sheet_by_name("Sheet1").unwrap();
            (1u32..=2).map(|i| {
                let st = ws.get_style((1, i));
                match st.get_font() {
                    Some(f) => hex(&format!("{}/{}/{}", f.get_name(), f.get_size(), f.get_bold())),
                    None => hex("no font"),
                }
            }).collect()
        }
        "numfmt_roundtrip" => {
            // code : cell A1 with this number-format code, saved and reloaded
            let code = unhex(&p[1]);
            let mut book = umya_spreadsheet::new_file();
            let ws = book.get_sheet_by_name_mut("Sheet1").unwrap();
            let c = ws.get_cell_mut((1, 1));
            c.set_value_number(1.5);
            c.get_style_mut().get_number_format_mut().set_format_code(code);
            let mut buf: Vec<u8> = Vec::new();
            umya_spreadsheet::writer::xlsx::write_writer(&book, &mut buf).unwrap();
            let back = umya_spreadsheet::reader::xlsx::read_reader(std::io::Cursor::new(buf), true).unwrap();
            let ws = back.get_sheet_by_name("Sheet1").unwrap();
            vec![hex(ws.get_style((1, 1)).get_number_format().map(|f| f.get_format_code()).unwrap_or("<none>"))]
        }
        "numfmt_intern" => {
            // id_a code_a id_b code_b id_s code_s : a loaded workbook whose table holds code_a/code_b under ids 176/177, and a style
            // whose custom format carries id_s (taken from another loaded workbook, or fresh for 999999) given to a third cell
            let reload = |book: &umya_spreadsheet::Spreadsheet| {
                let mut buf: Vec<u8> = Vec::new();
                umya_spreadsheet::writer::xlsx::write_writer(book, &mut buf).unwrap();
                umya_spreadsheet::reader::xlsx::read_reader(std::io::Cursor::new(buf), true).unwrap()
            };
            let (ia, ca, ib, cb, is, cs) = (u(&p[1]), unhex(&p[2]), u(&p[3]), unhex(&p[4]), u(&p[5]), unhex(&p[6]));
            let mut x = umya_spreadsheet::new_file();
            {
                let ws = x.get_sheet_by_name_mut("Sheet1").unwrap();
                for (id, code) in [(ia, &ca), (ib, &cb)] {
                    let c = ws.get_cell_mut((1, id - 175));
                    c.set_value_number(1.5);
                    c.get_style_mut().get_number_format_mut().set_format_code(code.clone());
                }
            }
            let mut x = reload(&x);
            let style = if is == 999999 {
                let mut st = umya_spreadsheet::Style::default();
                st.get_number_format_mut().set_format_code(cs.clone());
                st
            } else {
                let mut z = umya_spreadsheet::new_file();
                {
                    let ws = z.get_sheet_by_name_mut("Sheet1").unwrap();
                    for k in 176..=is {
                        let c = ws.get_cell_mut((1, k - 175));
                        c.set_value_number(2.5);
                        let code = if k == is { cs.clone() } else { format!("\"zz{}\"0.0", k) };
                        c.get_style_mut().get_number_format_mut().set_format_code(code);
                    }
                }
                let z = reload(&z);
                z.get_sheet_by_name("Sheet1").unwrap().get_style((1, is - 175)).clone()
            };
            {
                let ws = x.get_sheet_by_name_mut("Sheet1").unwrap();
                let c = ws.get_cell_mut((1, 3));
                c.set_value_number(3.5);
                c.set_style(style);
            }
            let back = reload(&x);
            let ws = back.get_sheet_by_name("Sheet1").unwrap();
            [3, ia - 175, ib - 175].iter().map(|r| hex(ws.get_style((1, *r)).get_number_format().map(|f| f.get_format_code()).unwrap_or("<none>"))).collect()
        }
        "columns_roundtrip" => {
            // "num,width,hidden,bestfit,styled;..." : column settings of Sheet1, saved and reloaded
            let spec = unhex(&p[1]);
            let mut book = umya_spreadsheet::new_file();
            let show = |book: &umya_spreadsheet::Spreadsheet| {
                let ws = book.get_sheet_by_name("Sheet1").unwrap();
                let mut v: Vec<String> = ws.get_column_dimensions().iter().map(|c| format!("{}:w={} h={} bf={} st={}", c.get_col_num(), c.get_width(), *c.get_hidden() as u8, *c.get_best_fit() as u8,
                    c.get_style().get_number_format().map(|f| f.get_format_code().to_string()).unwrap_or("-".into()))).collect();
                v.sort_by_key(|t| t.split(':').next().unwrap().parse::<u32>().unwrap());
                v.join(" ")
            };
            {
                let ws = book.get_sheet_by_name_mut("Sheet1").unwrap();
                ws.get_cell_mut((1, 1)).set_value_string("x");
                for item in spec.split(';') {
                    let f: Vec<&str> = item.split(',').collect();
                    let c = ws.get_column_dimension_by_number_mut(&f[0].parse::<u32>().unwrap());
                    c.set_width(f[1].parse::<f64>().unwrap());
                    c.set_hidden(f[2] == "1");
                    c.set_best_fit(f[3] == "1");
                    if f[4] == "1" { c.get_style_mut().get_number_format_mut().set_format_code("0.00"); }
                }
            }
            let before = show(&book);
            let mut buf: Vec<u8> = Vec::new();
            umya_spreadsheet::writer::xlsx::write_writer(&book, &mut buf).unwrap();
            let back = umya_spreadsheet::reader::xlsx::read_reader(std::io::Cursor::new(buf), true).unwrap();
            vec![hex(&before), hex(&show(&back))]
        }
        "rows_roundtrip" => {
            // "num,hidden,height,cell;..." : row records of Sheet1 (hidden flag, height 12.75 or default, one text cell or none), saved and reloaded
            let spec = unhex(&p[1]);
            let mut book = umya_spreadsheet::new_file();
            {
                let ws = book.get_sheet_by_name_mut("Sheet1").unwrap();
                for item in spec.split(';') {
                    let f: Vec<u32> = item.split(',').map(|x| x.parse().unwrap()).collect();
                    let r = ws.get_row_dimension_mut(&f[0]);
                    if f[1] == 1 { r.set_hidden(true); }
                    if f[2] == 1 { r.set_height(12.75); }
                    if f[3] == 1 { ws.get_cell_mut((1, f[0])).set_value_string("x"); }
                }
            }
            let show = |book: &umya_spreadsheet::Spreadsheet| { let ws = book.get_sheet_by_name("Sheet1").unwrap(); let mut v: Vec<(u32, String)> = ws.get_row_dimensions().iter().filter(|r| *r.get_hidden() || *r.get_height() != 0.0).map(|r| (*r.get_row_num(), format!("{}: hidden={} height={}", r.get_row_num(), r.get_hidden(), r.get_height()))).collect(); v.sort(); v.into_iter().map(|x| x.1).collect::<Vec<_>>().join(" | ") };
            let before = show(&book);
            let mut buf: Vec<u8> = Vec::new();
            umya_spreadsheet::writer::xlsx::write_writer(&book, &mut buf).unwrap();
            let back = umya_spreadsheet::reader::xlsx::read_reader(std::io::Cursor::new(buf), true).unwrap();
            vec![hex(&before), hex(&show(&back))]
        }
        "styles_roundtrip" => {
            // "bold,center,unlocked,nf,codehex" twice : cells A1/A2 with these styles, saved and reloaded; effective values
            use umya_spreadsheet::*;
            let mut book = new_file();
            {
                let ws = book.get_sheet_by_name_mut("Sheet1").unwrap();
                for (row, k) in [(1u32, 1usize), (2u32, 2usize)] {
                    let f: Vec<String> = unhex(&p[k]).split(',').map(|x| x.to_string()).collect();
                    let c = ws.get_cell_mut((1, row)); c.set_value_string("x");
                    let st = c.get_style_mut();
                    if f[0] == "1" { st.get_font_mut().set_bold(true); }
                    if f[1] == "1" { st.get_alignment_mut().set_horizontal(HorizontalAlignmentValues::Center); }
                    if f[2] == "1" { st.get_protection_mut().set_locked(false); }
                    let code = String::from_utf8((0..f[4].len()).step_by(2).map(|i| u8::from_str_radix(&f[4][i..i + 2], 16).unwrap()).collect()).unwrap();
                    if f[3] == "1" { st.get_number_format_mut().set_format_code("0.00"); } else if f[3] == "2" { st.get_number_format_mut().set_format_code(code); }
                }
            }
            let show = |book: &Spreadsheet| { let ws = book.get_sheet_by_name("Sheet1").unwrap(); (1u32..=2).map(|r| { let st = ws.get_style((1, r));
                format!("bold={} center={} fmt={} locked={}", st.get_font().map(|f| *f.get_bold()).unwrap_or(false), st.get_alignment().map(|a| a.get_horizontal() == &HorizontalAlignmentValues::Center).unwrap_or(false),
                    st.get_number_format().map(|n| n.get_format_code().to_string()).unwrap_or("General".into()), st.get_protection().map(|p| *p.get_locked()).unwrap_or(true)) }).collect::<Vec<_>>().join(" | ") };
            let before = show(&book);
            let mut buf: Vec<u8> = Vec::new();
            writer::xlsx::write_writer(&book, &mut buf).unwrap();
            let back = reader::xlsx::read_reader(std::io::Cursor::new(buf), true).unwrap();
            vec![hex(&before), hex(&show(&back))]
        }
        "declared_numfmt" => {
            // id code : a package whose styles part declares <numFmt numFmtId=id formatCode=code> and whose cell A1 uses it (the styles part of a
            // saved workbook is patched), loaded by the real reader; the format code A1 shows
            use std::io::{Read, Write};
            let (id, code) = (u(&p[1]), unhex(&p[2]));
            let mut book = umya_spreadsheet::new_file();
            { let c = book.get_sheet_by_name_mut("Sheet1").unwrap().get_cell_mut((1, 1)); c.set_value_number(1.5); c.get_style_mut().get_number_format_mut().set_format_code(code.clone()); }
            let mut buf: Vec<u8> = Vec::new();
            umya_spreadsheet::writer::xlsx::write_writer(&book, &mut buf).unwrap();
            let mut zin = zip::ZipArchive::new(std::io::Cursor::new(buf)).unwrap();
            let mut out = zip::ZipWriter::new(std::io::Cursor::new(Vec::new()));
            for i in 0..zin.len() {
                let mut f = zin.by_index(i).unwrap();
                let name = f.name().to_string();
                let mut data = Vec::new(); f.read_to_end(&mut data).unwrap();
                if name == "xl/styles.xml" {
                    let text = String::from_utf8(data).unwrap();
                    // the id the library chose is the only 17x id in the part
                    let own = (176..200).map(|k| k.to_string()).find(|k| text.contains(&format!("numFmtId=\"{}\"", k))).unwrap();
                    data = text.replace(&format!("numFmtId=\"{}\"", own), &format!("numFmtId=\"{}\"", id)).into_bytes();
                }
                out.start_file(name, zip::write::SimpleFileOptions::default()).unwrap();
                out.write_all(&data).unwrap();
            }
            let bytes = out.finish().unwrap().into_inner();
            let back = umya_spreadsheet::reader::xlsx::read_reader(std::io::Cursor::new(bytes), true).unwrap();
            vec![hex(back.get_sheet_by_name("Sheet1").unwrap().get_style((1, 1)).get_number_format().map(|f| f.get_format_code()).unwrap_or("General"))]
        }
        "fill_roundtrip" => {
            // "background=..;foreground=.." twice ('-' = absent)
            let mut book = umya_spreadsheet::new_file();
            let ws = book.get_sheet_by_name_mut("Sheet1").unwrap();
            for (i, k) in [(1u32, 1usize), (2u32, 2usize)] {
                let c = ws.get_cell_mut((1, i));
                c.set_value_string("x");
                let pf = c.get_style_mut().get_fill_mut().get_pattern_fill_mut();
                for item in unhex(&p[k]).split(';') {
                    let (w, v) = item.split_once('=').unwrap();
                    if v == "-" { continue; }
                    let mut col = umya_spreadsheet::Color::default();
                    col.set_argb(v);
                    if w == "foreground" { pf.set_foreground_color(col); } else { pf.set_background_color(col); }
                }
            }
            let mut buf: Vec<u8> = Vec::new();
            umya_spreadsheet::writer::xlsx::write_writer(&book, &mut buf).unwrap();
            let back = umya_spreadsheet::reader::xlsx::read_reader(std::io::Cursor::new(buf), true).unwrap();
            let ws = back.get_sheet_by_name("Sheet1").unwrap();
            (1u32..=2).map(|i| {
                let st = ws.get_style((1, i));
                let show = |c: Option<&umya_spreadsheet::Color>| c.map(|c| c.get_argb().to_string()).unwrap_or("-".to_string());
                match st.get_fill().and_then(|f| f.get_pattern_fill()) {
                    Some(pf) => hex(&format!("background={};foreground={}", show(pf.get_background_color()), show(pf.get_foreground_color()))),
                    None => hex("background=-;foreground=-"),
                }
            }).collect()
        }
        // ---- C10
        "store_step" => {
            // op x y blank_has_format c0 r0 c1 r1 c2 r2 c3 r3 : same scenario through the public API, checked against a brute-force reference
            use std::collections::BTreeMap;
            let (op, x, y, fmt) = (unhex(&p[1]), u(&p[2]), u(&p[3]), b(&p[4]));
            let pos: Vec<(u32, u32)> = (0..4).map(|i| (u(&p[5 + 2 * i]), u(&p[6 + 2 * i]))).collect();
            let mut book = umya_spreadsheet::new_file();
            let ws = book.get_sheet_by_name_mut("Sheet1").unwrap();
            ws.get_cell_mut(pos[0]).set_value_bool(true);
            ws.get_cell_mut(pos[1]).set_value_bool(false);
            let with_third = p.len() < 14 || u(&p[13]) == 4;
            if with_third { ws.get_cell_mut(pos[2]).set_value_string("x"); }
            let c3 = ws.get_cell_mut(pos[3]);
            if fmt { c3.get_style_mut().get_number_format_mut().set_format_code("0.00"); }
            let mut reference: BTreeMap<(u32, u32), String> = BTreeMap::new();
            reference.insert((pos[0].1, pos[0].0), "TRUE".into());
            reference.insert((pos[1].1, pos[1].0), "FALSE".into());
            if with_third { reference.insert((pos[2].1, pos[2].0), "x".into()); }
            reference.insert((pos[3].1, pos[3].0), "".into());
            let shift = |m: &BTreeMap<(u32, u32), String>, row: bool, ins: bool| -> BTreeMap<(u32, u32), String> {
                let mut out = BTreeMap::new();
                for ((r, c), v) in m.iter() {
                    let k = if row { *r } else { *c };
                    let nk = if ins { if k >= x { k + y } else { k } } else if k >= x && k < x + y { continue } else if k >= x + y { k - y } else { k };
                    out.insert(if row { (nk, *c) } else { (*r, nk) }, v.clone());
                }
                out
            };
            match op.as_str() {
                "get_cell_mut" => { ws.get_cell_mut((x, y)); reference.entry((y, x)).or_insert("".into()); }
                "set_cell" => { let mut c = umya_spreadsheet::Cell::default(); c.get_coordinate_mut().set_col_num(x); c.get_coordinate_mut().set_row_num(y); c.set_value_bool(true); ws.set_cell(c); reference.insert((y, x), "TRUE".into()); }
                "remove_cell" => { ws.remove_cell((x, y)); reference.remove(&(y, x)); }
                "insert_new_row" => { ws.insert_new_row(&x, &y); reference = shift(&reference, true, true); }
                "insert_new_column_by_index" => { ws.insert_new_column_by_index(&x, &y); reference = shift(&reference, false, true); }
                "remove_row" => { ws.remove_row(&x, &y); reference = shift(&reference, true, false); }
                "remove_column_by_index" => { ws.remove_column_by_index(&x, &y); reference = shift(&reference, false, false); }
                "cleanup" => { ws.cleanup(); }
                _ => panic!("op"),
            }
            let mut problems: Vec<String> = vec![];
            let listed: Vec<(u32, u32, String)> = ws.get_cell_collection_sorted().iter().map(|c| (*c.get_coordinate().get_row_num(), *c.get_coordinate().get_col_num(), c.get_value().to_string())).collect();
            if op != "cleanup" {
                let want: Vec<(u32, u32, String)> = reference.iter().map(|((r, c), v)| (*r, *c, v.clone())).collect();
                if listed != want { problems.push(format!("sorted listing {:?} expected {:?}", listed, want)); }
            }
            if ws.get_cell_collection().len() != listed.len() { problems.push("unsorted and sorted listing differ in length".into()); }
            for w in listed.windows(2) { if (w[0].0, w[0].1) >= (w[1].0, w[1].1) { problems.push("sorted listing not strictly ascending".into()); } }
            for (r, c, _) in &listed {
                match ws.get_cell((*c, *r)) {
                    Some(cell) => if (cell.get_coordinate().get_col_num(), cell.get_coordinate().get_row_num()) != (c, r) { problems.push(format!("cell found at ({},{}) reports another coordinate", c, r)); },
                    None => problems.push(format!("listed cell ({},{}) not found by lookup", c, r)),
                }
                if ws.get_row_dimension(r).is_none() { problems.push(format!("row {} of an existing cell is unknown to the writer", r)); }
                if ws.get_collection_by_row(r).len() != listed.iter().filter(|t| t.0 == *r).count() { problems.push(format!("by-row listing of row {} disagrees", r)); }
                if ws.get_collection_by_column(c).len() != listed.iter().filter(|t| t.1 == *c).count() { problems.push(format!("by-column listing of column {} disagrees", c)); }
            }
            let hi = ws.get_highest_column_and_row();
            let exp_hi = (listed.iter().map(|t| t.1).max().unwrap_or(0), listed.iter().map(|t| t.0).max().unwrap_or(0));
            if hi != exp_hi { problems.push(format!("highest column/row {:?} expected {:?}", hi, exp_hi)); }
            if problems.is_empty() { vec!["coherent".to_string()] } else { let mut v = vec!["incoherent".to_string()]; v.extend(problems.iter().map(|s| hex(s))); v }
        }
        // ---- C20
        "csv_export" => {
            // "c,r=hex;..." do_trim wrap [removed "c,r"]
            let mut book = umya_spreadsheet::new_file();
            let ws = book.get_sheet_by_name_mut("Sheet1").unwrap();
            for item in unhex(&p[1]).split(';').filter(|s| !s.is_empty()) {
                let (k, v) = item.split_once('=').unwrap();
                let (c, r) = k.split_once(',').unwrap();
                ws.get_cell_mut((u(c), u(r))).set_value_string(unhex(v));
            }
            if p.len() > 4 {
                let rem = unhex(&p[4]);
                if let Some((c, r)) = rem.split_once(',') { ws.remove_cell((u(c), u(r))); }
            }
            let mut opt = umya_spreadsheet::structs::CsvWriterOption::default();
            opt.set_do_trim(b(&p[2]));
            opt.set_wrap_with_char(unhex(&p[3]));
            let mut c = std::io::Cursor::new(Vec::new());
            umya_spreadsheet::writer::csv::write_writer(&book, &mut c, &opt).unwrap();
            vec![c.into_inner().iter().map(|x| format!("{:02x}", x)).collect::<String>()]
        }
        // ---- C13
        "fsize_save" => {
            // kind dir big : save into dir/out.<ext> (pre-existing with content "OLD"); the caller sets RLIMIT_FSIZE
            let (kind, dir, big) = (unhex(&p[1]), unhex(&p[2]), b(&p[3]));
            let book = sample_book(big);
            let ext = if kind == "csv" { "csv" } else { "xlsx" };
            let dest = std::path::Path::new(&dir).join(format!("out.{}", ext));
            let r = match kind.as_str() {
                "xlsx" => umya_spreadsheet::writer::xlsx::write(&book, &dest),
                "xlsx_light" => umya_spreadsheet::writer::xlsx::write_light(&book, &dest),
                "csv" => umya_spreadsheet::writer::csv::write(&book, &dest, None),
                "xlsx_password" => umya_spreadsheet::writer::xlsx::write_with_password(&book, &dest, "pw"),
                "xlsx_password_light" => umya_spreadsheet::writer::xlsx::write_with_password_light(&book, &dest, "pw"),
                _ => panic!("kind"),
            };
            vec![if r.is_ok() { "Ok".to_string() } else { "Err".to_string() }]
        }
        "package_size" => {
            let (kind, big) = (unhex(&p[1]), b(&p[2]));
            let book = sample_book(big);
            let mut v: Vec<u8> = Vec::new();
            match kind.as_str() {
                "xlsx" => umya_spreadsheet::writer::xlsx::write_writer(&book, &mut v).unwrap(),
                "xlsx_light" => umya_spreadsheet::writer::xlsx::write_writer_light(&book, &mut v).unwrap(),
                "xlsx_password" | "xlsx_password_light" => {
                    let d = std::env::temp_dir().join(format!("umya-size-{}.xlsx", std::process::id()));
                    umya_spreadsheet::writer::xlsx::write_with_password(&book, &d, "pw").unwrap();
                    v = std::fs::read(&d).unwrap();
                    let _ = std::fs::remove_file(&d);
                }
                _ => {
                    let mut c = std::io::Cursor::new(Vec::new());
                    umya_spreadsheet::writer::csv::write_writer(&book, &mut c, &umya_spreadsheet::structs::CsvWriterOption::default()).unwrap();
                    v = c.into_inner();
                }
            }
            vec![v.len().to_string()]
        }
        "sink_save" => {
            // kind modes : per write() call A = all, H = half, Z = Ok(0), E = error
            let (kind, modes) = (unhex(&p[1]), unhex(&p[2]));
            let book = sample_book(false);
            let mut sink = ScriptedSink { modes: modes.chars().collect(), calls: 0, taken: 0 };
            let r = match kind.as_str() {
                "xlsx" => umya_spreadsheet::writer::xlsx::write_writer(&book, &mut sink),
                "xlsx_light" => umya_spreadsheet::writer::xlsx::write_writer_light(&book, &mut sink),
                "csv" => umya_spreadsheet::writer::csv::write_writer(&book, &mut sink, &umya_spreadsheet::structs::CsvWriterOption::default()),
                _ => panic!("kind"),
            };
            let mut full: Vec<u8> = Vec::new();
            let total = match kind.as_str() {
                "csv" => 3usize,
                "xlsx_light" => { let _ = umya_spreadsheet::writer::xlsx::write_writer_light(&book, &mut full); 0 }
                _ => { let _ = umya_spreadsheet::writer::xlsx::write_writer(&book, &mut full); 0 }
            };
            let _ = total;
            // an Ok result must mean that the sink accepted as many bytes as a save into memory produces (+- the few bytes zip timestamps vary)
            let good = match (&r, kind.as_str()) {
                (Ok(_), "csv") => sink.taken >= 3,
                (Ok(_), _) => sink.taken + 64 >= full.len(),
                (Err(_), _) => true,
            };
            vec![if good { "good".to_string() } else { "bad".to_string() }, if r.is_ok() { "Ok".to_string() } else { "Err".to_string() }, sink.taken.to_string()]
        }
        // ---- C14
        "password_key" => {
            let salt: Vec<u8> = (0..unhex(&p[2]).len() / 2).map(|i| u8::from_str_radix(&unhex(&p[2])[2 * i..2 * i + 2], 16).unwrap()).collect();
            let k = umya_spreadsheet::helper::crypt::verif_convert_password_to_key(&unhex(&p[1]), "SHA512", &salt, &(u(&p[3]) as usize), &256, &[0x14, 0x6e, 0x0b, 0xe7, 0xab, 0xac, 0xd0, 0xd6]);
            vec![k.iter().map(|b| format!("{:02x}", b)).collect::<String>()]
        }
        "encrypt_decrypt" => {
            // size password dir : the real encrypt(), twice, opened by the independent decryptor
            let (size, pw, dir) = (u(&p[1]) as usize, unhex(&p[2]), unhex(&p[3]));
            let data: Vec<u8> = (0..size).map(|i| (i * 31 + 7) as u8).collect();
            let mut out = vec![];
            let mut randoms: Vec<Vec<Vec<u8>>> = vec![];
            for k in 0..2 {
                let path = std::path::Path::new(&dir).join(format!("enc{}.xlsx", k));
                umya_spreadsheet::helper::crypt::encrypt(&path, &data, &pw);
                match crate::agile::decrypt(&path, &pw) {
                    Ok((ver, mac, declared, plain, rnd)) => {
                        out.push(format!("verifier={} hmac={} length={} plain={}", ver, mac, declared == size as u64, plain == data));
                        randoms.push(rnd);
                    }
                    Err(e) => out.push(format!("decrypt error: {}", e)),
                }
                if k == 0 {
                    let wrong = format!("{}x", pw);
                    match crate::agile::decrypt(&path, &wrong) {
                        Ok((ver, _, _, _, _)) => out.push(format!("wrong_password_verifier={}", ver)),
                        Err(e) => out.push(format!("wrong_password_verifier=false ({})", e)),
                    }
                }
            }
            let fresh = randoms.len() == 2 && randoms[0].iter().zip(randoms[1].iter()).all(|(a, b2)| a != b2);
            out.push(format!("fresh={}", fresh));
            out.iter().map(|s| hex(s)).collect()
        }
        // ---- C15
        "password_hash" => {
            // password salt(hex text) spin
            let salt: Vec<u8> = (0..unhex(&p[2]).len() / 2).map(|i| u8::from_str_radix(&unhex(&p[2])[2 * i..2 * i + 2], 16).unwrap()).collect();
            let h = umya_spreadsheet::helper::crypt::verif_convert_password_to_hash(&unhex(&p[1]), "SHA-512", &salt, &(u(&p[3]) as usize));
            vec![h.iter().map(|b| format!("{:02x}", b)).collect::<String>()]
        }
        "protect" => {
            // kind password : public API, legacy attributes present before
            let (kind, pw) = (unhex(&p[1]), unhex(&p[2]));
            if kind == "sheet" {
                let mut sp = umya_spreadsheet::SheetProtection::default();
                sp.set_password_raw("CAFE");
                sp.set_password(&pw);
                let salt1 = sp.get_salt_value().to_string();
                let out = vec![hex(sp.get_algorithm_name()), hex(&salt1), hex(&sp.get_spin_count().to_string()), hex(sp.get_hash_value()), hex(sp.get_password_raw()), hex("")];
                sp.set_password(&pw);
                let mut out = out;
                out.push(hex(sp.get_salt_value()));
                out
            } else {
                let mut wp = umya_spreadsheet::WorkbookProtection::default();
                wp.set_workbook_password_raw("CAFE");
                wp.set_revisions_password_raw("BEEF");
                if kind == "workbook" {
                    wp.set_workbook_password(&pw);
                    let mut out = vec![hex(wp.get_workbook_algorithm_name()), hex(wp.get_workbook_salt_value()), hex(&wp.get_workbook_spin_count().to_string()), hex(wp.get_workbook_hash_value()), hex(wp.get_workbook_password_raw()), hex(wp.get_revisions_password_raw())];
                    wp.set_workbook_password(&pw);
                    out.push(hex(wp.get_workbook_salt_value()));
                    out
                } else {
                    wp.set_revisions_password(&pw);
                    let mut out = vec![hex(wp.get_revisions_algorithm_name()), hex(wp.get_revisions_salt_value()), hex(&wp.get_revisions_spin_count().to_string()), hex(wp.get_revisions_hash_value()), hex(wp.get_revisions_password_raw()), hex(wp.get_workbook_password_raw())];
                    wp.set_revisions_password(&pw);
                    out.push(hex(wp.get_revisions_salt_value()));
                    out
                }
            }
        }
        // ---- C18
        "convert_date" => {
            let v: Vec<i32> = p[1..7].iter().map(|x| x.parse::<i32>().unwrap()).collect();
            vec![format!("{:?}", umya_spreadsheet::helper::date::convert_date(v[0], v[1], v[2], v[3], v[4], v[5]))]
        }
        "date_roundtrip" => {
            use chrono::{Datelike, Timelike};
            let v: Vec<i32> = p[1..7].iter().map(|x| x.parse::<i32>().unwrap()).collect();
            let s = umya_spreadsheet::helper::date::convert_date(v[0], v[1], v[2], v[3], v[4], v[5]);
            let dt = umya_spreadsheet::helper::date::excel_to_date_time_object(&s, None);
            vec![dt.year().to_string(), dt.month().to_string(), dt.day().to_string(), dt.hour().to_string(), dt.minute().to_string(), dt.second().to_string()]
        }
        "serial_to_date" => {
            use chrono::{Datelike, Timelike};
            let n = p[1].parse::<f64>().unwrap();
            let dt = umya_spreadsheet::helper::date::excel_to_date_time_object(&n, None);
            vec![dt.year().to_string(), dt.month().to_string(), dt.day().to_string(), dt.hour().to_string(), dt.minute().to_string(), dt.second().to_string()]
        }
        "scan_dates" => {
            // mode lo hi [y m d]: native search for a concrete input on which the date kernels deviate from the civil-calendar oracle
            use chrono::{Datelike, Timelike};
            use umya_spreadsheet::helper::date::*;
            fn dfc(y: i64, m: i64, d: i64) -> i64 {
                let y = if m <= 2 { y - 1 } else { y };
                let era = if y >= 0 { y } else { y - 399 } / 400;
                let yoe = y - era * 400;
                let mp = (m + 9) % 12;
                let doy = (153 * mp + 2) / 5 + d - 1;
                era * 146097 + yoe * 365 + yoe / 4 - yoe / 100 + doy - 719468
            }
            fn dim(y: i32, m: i32) -> i32 {
                match m { 1 | 3 | 5 | 7 | 8 | 10 | 12 => 31, 4 | 6 | 9 | 11 => 30, _ => if (y % 4 == 0 && y % 100 != 0) || y % 400 == 0 { 29 } else { 28 } }
            }
            let mode = unhex(&p[1]);
            let (lo, hi) = (p[2].parse::<i32>().unwrap(), p[3].parse::<i32>().unwrap());
            match mode.as_str() {
                "to_serial" => {
                    for y in lo..=hi { for m in 1..=12 { for d in 1..=dim(y, m) {
                        let exp = dfc(y as i64, m as i64, d as i64) + 25569 - if (y, m) < (1900, 3) { 1 } else { 0 };
                        if convert_date(y, m, d, 0, 0, 0) != exp as f64 { return vec![format!("{} {} {}", y, m, d)]; }
                    } } }
                }
                "from_serial" => {
                    for n in lo..=hi {
                        if n == 60 { continue; }
                        let dt = excel_to_date_time_object(&(n as f64), None);
                        let back = dfc(dt.year() as i64, dt.month() as i64, dt.day() as i64) + 25569;
                        let exp = if n < 61 { n as i64 + 1 } else { n as i64 };
                        if back != exp || dt.hour() != 0 || dt.minute() != 0 || dt.second() != 0 { return vec![format!("{}", n)]; }
                    }
                }
                "roundtrip" | "edges" | "monotone" => {
                    let (y, m, d) = (p[4].parse::<i32>().unwrap(), p[5].parse::<i32>().unwrap(), p[6].parse::<i32>().unwrap());
                    for h in lo..=hi { for mi in 0..60 { for s in 0..60 {
                        if mode == "edges" && !((mi == 0 || mi == 59) && (s == 0 || s == 1 || s == 59)) { continue; }
                        let serial = convert_date(y, m, d, h, mi, s);
                        if mode == "monotone" {
                            let day = (dfc(y as i64, m as i64, d as i64) + 25569 - if (y, m) < (1900, 3) { 1 } else { 0 }) as f64;
                            let bad = !(serial >= day && serial < day + 1.0) || (s < 59 && !(serial < convert_date(y, m, d, h, mi, s + 1)));
                            if bad { return vec![format!("{} {} {}", h, mi, s)]; }
                            continue;
                        }
                        let dt = excel_to_date_time_object(&serial, None);
                        if (dt.year(), dt.month() as i32, dt.day() as i32, dt.hour() as i32, dt.minute() as i32, dt.second() as i32) != (y, m, d, h, mi, s) {
                            return vec![format!("{} {} {}", h, mi, s)];
                        }
                    } } }
                }
                _ => panic!("mode"),
            }
            vec!["none".to_string()]
        }
        // ---- C19
        "straight" => {
            // value pattern decimals thousands
            let k = u(&p[3]) as usize;
            let pat = unhex(&p[2]);
            let matches = vec![pat.clone(), "0".to_string(), if k > 0 { ".".to_string() } else { String::new() }, "0".repeat(k)];
            vec![hex(&va::format_straight_numeric_value(&unhex(&p[1]), &pat, &matches, &b(&p[4])))]
        }
        "format_value" => {
            // number text, format code : through the public cell API
            let mut c = umya_spreadsheet::Cell::default();
            c.set_value_number(unhex(&p[1]).parse::<f64>().unwrap());
            c.get_style_mut().get_number_format_mut().set_format_code(unhex(&p[2]));
            vec![hex(&c.get_formatted_value())]
        }
        // ---- C09
        "parse_render" => vec![hex(&va::parse_render(&unhex(&p[1])))],
        "parse_tokens" => {
            let mut out = vec![];
            for (v, t, s) in va::parse_tokens(&unhex(&p[1])) {
                out.push(hex(&v));
                out.push(t);
                out.push(s);
            }
            out
        }
        other => panic!("unknown case kind {}", other),
    }
}
