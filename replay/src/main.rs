//! Native replay of solver cases against the real crate (public API where one exists, `verif_api` otherwise).
//! Protocol: one case per input line, tab-separated: kind, then arguments; string arguments are hex(UTF-8).
//! One output line per case: `ok\t<hex fields...>` or `panic\t<hex message>`.
use std::io::{self, BufRead, Write};
use std::panic;

mod agile;
mod cases;

pub fn hex(s: &str) -> String {
    s.bytes().map(|b| format!("{:02x}", b)).collect()
}
pub fn unhex(s: &str) -> String {
    let bytes: Vec<u8> = (0..s.len() / 2)
        .map(|i| u8::from_str_radix(&s[2 * i..2 * i + 2], 16).unwrap())
        .collect();
    String::from_utf8(bytes).unwrap()
}

fn main() {
    panic::set_hook(Box::new(|_| {}));
    let stdin = io::stdin();
    let stdout = io::stdout();
    let mut out = stdout.lock();
    for line in stdin.lock().lines() {
        let line = line.unwrap();
        if line.is_empty() {
            continue;
        }
        let parts: Vec<String> = line.split('\t').map(|s| s.to_string()).collect();
        let res = panic::catch_unwind(|| cases::run(&parts));
        match res {
            Ok(fields) => {
                let mut s = String::from("ok");
                for f in fields {
                    s.push('\t');
                    s.push_str(&f);
                }
                writeln!(out, "{}", s).unwrap();
            }
            Err(e) => {
                let msg = if let Some(s) = e.downcast_ref::<&str>() {
                    s.to_string()
                } else if let Some(s) = e.downcast_ref::<String>() {
                    s.clone()
                } else {
                    "panic".to_string()
                };
                writeln!(out, "panic\t{}", hex(&msg)).unwrap();
            }
        }
        out.flush().unwrap();
    }
}
