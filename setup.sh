#!/bin/sh
# Builds everything the checks need from files on disk only (offline).
set -e
cd "$(dirname "$0")"
export CARGO_NET_OFFLINE=true
mkdir -p .cache evidence out
(cd replay && RUSTFLAGS="--cfg umya_verif" cargo build --offline --target-dir ../.cache/replay-target 2>&1 | tail -2)
(cd replay && RUSTFLAGS="--cfg umya_verif" cargo build --release --offline --target-dir ../.cache/replay-target 2>&1 | tail -2)
python3-vt -c "import sys; sys.path.insert(0,'.'); from engine import run; run.mir_dump()"
python3-vt engine/rx.py
echo setup ok
