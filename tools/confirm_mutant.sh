#!/bin/bash
# usage: tools/confirm_mutant.sh <Cxx> <k> : confirms /tmp/mut/<Cxx>/out/mut<k>.diff + demo<k>.rs in a scratch worktree
# (compiles, existing tests still pass with the change, demo fails with it and passes without); then stores it under /verif/seeded/
set -u
ID=$1; K=$2; SRC=/tmp/mut/$ID/out; WT=/tmp/mutconf/wt; LOG=/tmp/mutconf/$ID-$K.log
mkdir -p /tmp/mutconf
export CARGO_NET_OFFLINE=true CARGO_TARGET_DIR=/tmp/mutconf/target
if [ ! -d $WT ]; then git -C /repo worktree add --detach $WT HEAD >/dev/null 2>&1 || exit 9; fi
cd $WT && git checkout -q --detach $(git -C /repo rev-parse HEAD) && git checkout -- . && git clean -fdq
{
echo "== $ID mut$K at $(git rev-parse --short HEAD)"
cp $SRC/demo$K.rs tests/demo_mut.rs
cargo test --offline -j 8 --test demo_mut 2>&1 | grep -E '^test result|error' | head -5; base=${PIPESTATUS[0]}
echo "demo on unchanged tree: rc=$base"
git apply $SRC/mut$K.diff || { echo "PATCH DOES NOT APPLY"; exit 1; }
cargo test --offline -j 8 --test demo_mut 2>&1 | grep -E '^test result|error' | head -5; mut=${PIPESTATUS[0]}
echo "demo with change: rc=$mut"
rm -f tests/demo_mut.rs
cargo test --offline -j 8 --no-fail-fast 2>&1 | grep -E '^test result|FAILED|failed' | head -12
} > $LOG 2>&1
suite=$(grep -c 'test result' $LOG)
fails=$(grep -E '^test .* FAILED|^    ' $LOG | grep -v -E 'lazy_read_and_wite_large_string|read_large_string' | grep -c -E 'integration_test::|::tests::')
git checkout -- . ; git clean -fdq
echo "base_rc=$base mut_rc=$mut other_failures=$fails" | tee -a $LOG
if [ "$base" = 0 ] && [ "$mut" != 0 ] && [ "$fails" = 0 ]; then
  D=/verif/seeded/$ID-$K; mkdir -p $D
  cp $SRC/mut$K.diff $D/patch.diff; cp $SRC/demo$K.rs $D/demo.rs; cp $SRC/mut$K.md $D/notes.md
  echo "CONFIRMED -> $D" | tee -a $LOG
else echo "NOT CONFIRMED" | tee -a $LOG; fi
