#!/usr/bin/env python3
"""usage: tools/mk_meta.py <seed-id> <property> <detected_by|-> <result> <history>   -- writes seeded/<id>/meta.json from notes.md's first paragraph"""
import sys, json, os, re
sid, prop, det, result, hist = sys.argv[1:6]
d = os.path.join(os.path.dirname(os.path.dirname(os.path.abspath(__file__))), 'seeded', sid)
notes = open(os.path.join(d, 'notes.md')).read() if os.path.exists(os.path.join(d, 'notes.md')) else ''
what = sys.argv[6] if len(sys.argv) > 6 else next((l.strip('# ').strip() for l in notes.split('\n') if l.strip()), '')
needs = ''
mm = re.search(r'(?is)(what it needs[^\n]*\n|needs in order to manifest[^\n]*\n|## *manifest[^\n]*\n)(.*?)(\n#|\Z)', notes)
if mm: needs = ' '.join(mm.group(2).split())[:600]
base, k = sid.rsplit('-', 1)
meta = {'id': sid, 'property': prop, 'breaks': prop, 'what': what, 'needs_to_manifest': needs or 'see notes.md',
        'confirmed_by': 'tools/confirm_mutant.sh %s %s (scratch worktree: demo passes on the unchanged tree, fails with the change, the 95 tests still pass)' % (base, k),
        'files': {'patch': 'patch.diff', 'demonstration': 'demo.rs', 'notes': 'notes.md'},
        'detected_by': None if det == '-' else det, 'how_run': 'tools/try_mutant.sh /verif/seeded/%s/patch.diff %s' % (sid, prop), 'result': result, 'history': hist}
json.dump(meta, open(os.path.join(d, 'meta.json'), 'w'), indent=1)
print('wrote', os.path.join(d, 'meta.json'))
