#!/bin/sh
# runs every registered quick check on the clean tree and leaves fresh evidence files (to be committed)
cd /verif || exit 9
if ! git -C /repo diff --quiet; then echo "/repo has uncommitted changes"; exit 9; fi
rc=0
for p in $(python3 -c "import json; print(' '.join(c['property_id'] for c in json.load(open('MANIFEST.json'))['checks']))"); do
  VERIF_SEED=${VERIF_SEED:-1} ./check $p --tier quick > /tmp/refresh_$p.log 2>&1; r=$?
  echo "$p exit=$r $(tail -n 1 /tmp/refresh_$p.log | cut -c1-100)"
  [ $r -ne 0 ] && rc=1
done
exit $rc
