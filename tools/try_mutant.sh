#!/bin/sh
# usage: tools/try_mutant.sh <patch.diff> <Cxx> [extra check args]   -- applies the patch to /repo, runs the check, reverts
set -u
P="$1"; C="$2"; shift 2
cd /repo || exit 9
if ! git diff --quiet; then echo "/repo has uncommitted changes"; exit 9; fi
git apply "$P" 2>/dev/null || patch -p1 --fuzz=3 -s < "$P" || { echo "patch does not apply"; git checkout -- .; exit 9; }
cd /verif && ./check "$C" "$@" > /tmp/try_mutant.$$.log 2>&1; rc=$?
cd /repo && git checkout -- . && git clean -fdq tests/ src/ 2>/dev/null
grep -E '^(VIOLATION|KNOWN-FINDING|INCONCLUSIVE|C[0-9]+ )' /tmp/try_mutant.$$.log | cut -c1-300 | head -12
rm -f /tmp/try_mutant.$$.log
echo "exit=$rc"
exit $rc
